"""Rules on engine/statement_splitter.py shared by C02, C04, C05, C17, C20."""
import ast

from .astutil import (Guards, enum_paths, src, is_name, is_attr, yields_in, atoms, fact_in, assigned_names,
                      exits_always, local_defs, path_feasible)
from .fold import TT, NotConst
from .model import AnalysisError, own_nodes, Cls

SPLITTER = 'sqlparse.engine.statement_splitter.StatementSplitter'


def splitter_loop(ctx):
    """(func, loop node, (ttype var, value var))"""
    f = ctx.repo.func(SPLITTER + '.process')
    ctx.need(len(f.params) >= 2, 'StatementSplitter.process lost its stream parameter')
    stream = f.params[1]
    loops = [s for s in f.node.body if isinstance(s, ast.For) and is_name(s.iter, stream)]
    ctx.need(len(loops) == 1, f'{f.mod.relpath}:{f.node.lineno}: expected one top-level `for ... in {stream}` loop in StatementSplitter.process')
    lp = loops[0]
    ctx.need(isinstance(lp.target, ast.Tuple) and len(lp.target.elts) == 2 and all(isinstance(e, ast.Name) for e in lp.target.elts),
             f'{f.mod.relpath}:{lp.lineno}: splitter loop target is not a (ttype, value) pair')
    return f, lp, tuple(e.id for e in lp.target.elts)


def resolves_to_class(ctx, f, expr, cname):
    from .cg import get_cg
    cg = get_cg(ctx)
    r = cg._resolve_name_value(expr, f, f.mod, cg._enclosing_class(f)) if isinstance(expr, (ast.Name, ast.Attribute)) else []
    return any(isinstance(t, Cls) and t.qname == cname for t in r)


def is_append_token(ctx, f, s, tvar, vvar):
    """s is `self.tokens.append(sql.Token(tvar, vvar))` -> (is_append, exact)"""
    if not (isinstance(s, ast.Expr) and isinstance(s.value, ast.Call)):
        return False, False
    c = s.value
    if not (isinstance(c.func, ast.Attribute) and c.func.attr == 'append' and is_attr(c.func.value, 'tokens', 'self')):
        return False, False
    if len(c.args) != 1:
        return True, False
    a = c.args[0]
    ok = isinstance(a, ast.Call) and resolves_to_class(ctx, f, a.func, 'sqlparse.sql.Token') and len(a.args) == 2 \
        and not a.keywords and is_name(a.args[0], tvar) and is_name(a.args[1], vvar)
    return True, ok


def is_yield_statement(ctx, f, s):
    """`yield sql.Statement(self.tokens)`"""
    if not (isinstance(s, ast.Expr) and isinstance(s.value, ast.Yield) and isinstance(s.value.value, ast.Call)):
        return False
    c = s.value.value
    return resolves_to_class(ctx, f, c.func, 'sqlparse.sql.Statement') and len(c.args) == 1 and is_attr(c.args[0], 'tokens', 'self')


def is_reset_call(s):
    return isinstance(s, ast.Expr) and isinstance(s.value, ast.Call) and is_attr(s.value.func, '_reset', 'self') and not s.value.args


def check_conservation(ctx, rid):
    """R2.1: on every path of one iteration exactly one append of Token(ttype, value), unmodified."""
    f, lp, (tv, vv) = splitter_loop(ctx)
    paths = enum_paths(lp.body)
    ctx.info.setdefault('splitter_loop_paths', len(paths))
    for p in paths:
        st = p.stmts()
        desc = ' ∧ '.join(f'{"" if pol else "not "}({src(t)})' for t, pol in p.tests()) or 'always'
        apps = [(s,) + is_append_token(ctx, f, s, tv, vv) for s in st]
        apps = [a for a in apps if a[1]]
        key = f'path[{desc}]'
        loc = f'{f.mod.relpath}:{lp.lineno}'
        if len(apps) != 1:
            ctx.ob(rid, key, loc, 'exactly one self.tokens.append(sql.Token(ttype, value)) on the path', False,
                   f'{len(apps)} appends on the path (exit: {p.exit}): a lexer token is dropped or duplicated')
            continue
        s, _, exact = apps[0]
        loc = f'{f.mod.relpath}:{s.lineno}'
        if not exact:
            ctx.ob(rid, key, loc, f'the appended token is sql.Token({tv}, {vv}) built from the loop targets', False,
                   f'`{src(s)}` does not pass the lexer pair ({tv}, {vv}) unchanged')
            continue
        before = st[:st.index(s)]
        mods = [b for b in before if assigned_names(b) & {tv, vv}]
        if mods:
            ctx.ob(rid, key, f'{f.mod.relpath}:{mods[0].lineno}', f'({tv}, {vv}) reach sql.Token unmodified', False,
                   f'`{src(mods[0])}` rebinds a loop target before it is stored in the token: the parsed text differs from the input')
            continue
        # other stores into the tokens list on the path
        others = [b for b in st if b is not s and isinstance(b, ast.Expr) and isinstance(b.value, ast.Call)
                  and isinstance(b.value.func, ast.Attribute) and is_attr(b.value.func.value, 'tokens', 'self')
                  and b.value.func.attr in ('append', 'extend', 'insert', 'pop', 'remove', 'clear')]
        ctx.ob(rid, key, loc, f'exactly one append of sql.Token({tv}, {vv}); no other mutation of self.tokens', not others,
               f'`{src(others[0])}`' if others else '')


def check_yield_reset(ctx, rid):
    """R2.2: yield Statement(self.tokens) -> self._reset() before the append; _reset rebinds self.tokens."""
    f, lp, (tv, vv) = splitter_loop(ctx)
    paths = enum_paths(lp.body)
    n = 0
    for p in paths:
        st = p.stmts()
        ys = [s for s in st if isinstance(s, ast.Expr) and isinstance(s.value, (ast.Yield, ast.YieldFrom))]
        for y in ys:
            n += 1
            loc = f'{f.mod.relpath}:{y.lineno}'
            key = f'yield[{src(y)}]@[{" ∧ ".join(src(t) if pol else "not " + src(t) for t, pol in p.tests())}]'
            if not is_yield_statement(ctx, f, y):
                ctx.ob(rid, key, loc, 'in-loop yield is `yield sql.Statement(self.tokens)`', False, f'`{src(y)}`')
                continue
            after = st[st.index(y) + 1:]
            app = next((s for s in after if is_append_token(ctx, f, s, tv, vv)[0]), None)
            upto = after[:after.index(app)] if app is not None else after
            ok = any(is_reset_call(s) for s in upto)
            ctx.ob(rid, key, loc, 'yield of the finished statement is followed by self._reset() before the next append', ok,
                   'no self._reset() between the yield and the append: the next token is appended to the list object the '
                   'yielded Statement keeps')
    ctx.need(n > 0, f'{f.mod.relpath}:{lp.lineno}: no in-loop yield found in StatementSplitter.process')
    # _reset rebinds
    r = ctx.repo.func(SPLITTER + '._reset')
    rebinds = [s for s in own_nodes(r.node) if isinstance(s, ast.Assign) and any(is_attr(t, 'tokens', 'self') for t in s.targets)]
    fresh = [s for s in rebinds if (isinstance(s.value, ast.List) and not s.value.elts)
             or (isinstance(s.value, ast.Call) and is_name(s.value.func, 'list') and not s.value.args)]
    clears = [n_ for n_ in own_nodes(r.node) if isinstance(n_, ast.Call) and isinstance(n_.func, ast.Attribute)
              and n_.func.attr in ('clear',) and is_attr(n_.func.value, 'tokens', 'self')]
    dels = [n_ for n_ in own_nodes(r.node) if isinstance(n_, ast.Delete)]
    ctx.ob(rid, '_reset-rebinds-tokens', f'{r.mod.relpath}:{r.node.lineno}',
           '_reset rebinds self.tokens to a fresh list (Statement keeps the list object it was given)',
           len(fresh) == 1 and len(rebinds) == 1 and not clears and not dels,
           f'rebinding stores: {[src(s) for s in rebinds]}, in-place clears: {[src(c) for c in clears] + [src(d) for d in dels]}: '
           'emptying the list in place empties the statement just yielded')


def check_final_flush(ctx, rid):
    """R2.3: after the loop pending tokens are yielded unless empty/all whitespace."""
    f, lp, (tv, vv) = splitter_loop(ctx)
    body = f.node.body
    after = body[body.index(lp) + 1:]
    loc = f'{f.mod.relpath}:{lp.end_lineno}'
    ys = [(s, y) for s in after for y in yields_in(s)]
    if len(ys) != 1:
        ctx.ob(rid, 'final-flush', loc, 'exactly one flush of the pending statement after the loop', False,
               f'{len(ys)} yields after the loop: the last statement of the input is lost or duplicated')
        return
    g = Guards(f.node)
    top, y = ys[0]
    ystmt = g.stmt_of.get(id(y))
    ok_y = ystmt is not None and is_yield_statement(ctx, f, ystmt)
    ctx.ob(rid, 'final-flush-yields-statement', f'{f.mod.relpath}:{y.lineno}', 'the flush yields sql.Statement(self.tokens)', ok_y,
           f'`{src(y)}`')
    facts = [a for a in g.facts(ystmt) if a not in g.facts(lp)] if ystmt is not None else []
    bad = []
    for a in facts:
        if a[0] == '|':
            bad.append(a)
            continue
        e, pol = a
        if e == 'self.tokens' and pol:
            continue
        if is_all_ws(e) and not pol:
            continue
        if is_any_not_ws(e) and pol:
            continue
        bad.append(a)
    ctx.ob(rid, 'final-flush-guard', f'{f.mod.relpath}:{top.lineno}',
           'the flush is skipped only when the pending tokens are empty or all whitespace', not bad,
           f'extra/other condition(s) on the flush: {[(a[0], a[1]) if a[0] != "|" else "disjunction" for a in bad]}: '
           'a trailing non-whitespace statement can be discarded, or a whitespace-only one is yielded')


def is_all_ws(e):
    try:
        n = ast.parse(e, mode='eval').body
    except SyntaxError:
        return False
    if isinstance(n, ast.Call) and is_name(n.func, 'all') and len(n.args) == 1 and isinstance(n.args[0], (ast.GeneratorExp, ast.ListComp)):
        ge = n.args[0]
        if len(ge.generators) == 1 and not ge.generators[0].ifs and is_attr(ge.generators[0].iter, 'tokens', 'self') \
                and isinstance(ge.generators[0].target, ast.Name):
            v = ge.generators[0].target.id
            return is_attr(ge.elt, 'is_whitespace', v)
    return False


def is_any_not_ws(e):
    try:
        n = ast.parse(e, mode='eval').body
    except SyntaxError:
        return False
    if isinstance(n, ast.Call) and is_name(n.func, 'any') and len(n.args) == 1 and isinstance(n.args[0], (ast.GeneratorExp, ast.ListComp)):
        ge = n.args[0]
        if len(ge.generators) == 1 and not ge.generators[0].ifs and is_attr(ge.generators[0].iter, 'tokens', 'self') \
                and isinstance(ge.generators[0].target, ast.Name):
            v = ge.generators[0].target.id
            return isinstance(ge.elt, ast.UnaryOp) and isinstance(ge.elt.op, ast.Not) and is_attr(ge.elt.operand, 'is_whitespace', v)
    return False


def check_reset_completeness(ctx, rid):
    """R20.3: attributes the splitter stores to == attributes _reset assigns; __init__ calls _reset."""
    repo = ctx.repo
    c = repo.cls(SPLITTER)
    stored = {}
    for m in c.methods.values():
        for n in own_nodes(m.node):
            tg = []
            if isinstance(n, ast.Assign):
                tg = n.targets
            elif isinstance(n, (ast.AugAssign, ast.AnnAssign)):
                tg = [n.target]
            for t0 in tg:
                for t in (t0.elts if isinstance(t0, (ast.Tuple, ast.List)) else [t0]):
                    if is_attr(t, None, 'self'):
                        stored.setdefault(t.attr, []).append((m, n))
            if isinstance(n, ast.Call) and is_name(n.func, 'setattr') and n.args and is_name(n.args[0], 'self'):
                a = n.args[1] if len(n.args) > 1 else None
                stored.setdefault(a.value if isinstance(a, ast.Constant) else '<dynamic>', []).append((m, n))
    r = c.methods.get('_reset')
    ctx.need(r is not None, 'StatementSplitter._reset not found')
    reset_attrs = {a for a, ss in stored.items() if any(m is r for m, _ in ss)}
    # only unconditional top-level assignments of _reset count
    top = set()
    for s in r.node.body:
        if isinstance(s, ast.Assign):
            for t in s.targets:
                if is_attr(t, None, 'self'):
                    top.add(t.attr)
    for a in sorted(stored):
        m, n = stored[a][0]
        ctx.ob(rid, f'attr:{a}', f'{m.mod.relpath}:{n.lineno}',
               f'per-statement state `self.{a}` is re-initialised unconditionally by _reset', a in top,
               f'`self.{a}` is stored in {sorted({mm.name for mm, _ in stored[a]})} but not reset by _reset: its value leaks '
               'from one statement into the next (and from one call into the next if the splitter is reused)')
    init = c.methods.get('__init__')
    calls_reset = init is not None and any(is_reset_call(s) for s in init.node.body)
    ctx.ob(rid, '__init__-calls-_reset', f'{c.mod.relpath}:{(init or r).node.lineno}',
           '__init__ establishes the state by calling _reset()', calls_reset, '__init__ does not call self._reset()')
    # reads of self.X where X is never stored
    reads = set()
    for m in c.methods.values():
        for n in own_nodes(m.node):
            if isinstance(n, ast.Attribute) and isinstance(n.ctx, ast.Load) and is_name(n.value, 'self'):
                reads.add(n.attr)
    ghost = sorted(x for x in reads if x not in stored and x not in c.methods and repo.lookup_method(c, x) is None
                   and repo.lookup_class_attr(c, x)[0] is None)
    ctx.ob(rid, 'no-unset-state', f'{c.mod.relpath}:{c.node.lineno}', 'every self.<attr> the splitter reads is initialised', not ghost,
           f'read but never stored: {ghost}')
    # per-statement state kept in locals of process(): every loop-carried local is re-initialised when a statement is flushed
    try:
        f, lp, (tv, vv) = splitter_loop(ctx)
    except AnalysisError:
        return sorted(stored)

    def stores(stmts):
        out = set()
        for s_ in stmts:
            for n_ in ast.walk(s_):
                if isinstance(n_, ast.Name) and isinstance(n_.ctx, ast.Store):
                    out.add(n_.id)
        return out
    idx = f.node.body.index(lp)
    before = stores(f.node.body[:idx])
    inside = stores(lp.body)
    carried = sorted((before & inside) - {tv, vv})
    if carried:
        for p in enum_paths(lp.body):
            st = p.stmts()
            ys = [i for i, s_ in enumerate(st) if isinstance(s_, ast.Expr) and isinstance(s_.value, (ast.Yield, ast.YieldFrom))]
            if not ys:
                continue
            after = st[ys[-1] + 1:]
            plain = set()
            for s_ in after:
                if isinstance(s_, ast.Assign):
                    for t in s_.targets:
                        for n_ in ast.walk(t):
                            if isinstance(n_, ast.Name):
                                plain.add(n_.id)
            # the first thing that happens to the variable after the flush must be a plain re-initialisation
            missing = []
            for v in carried:
                first = next((s_ for s_ in after if any(isinstance(n_, ast.Name) and n_.id == v for n_ in ast.walk(s_))), None)
                ok_v = isinstance(first, ast.Assign) and v in {n_.id for t in first.targets for n_ in ast.walk(t) if isinstance(n_, ast.Name)} \
                    and not any(isinstance(n_, ast.Name) and n_.id == v for n_ in ast.walk(first.value))
                if not ok_v:
                    missing.append(v)
            desc = ' ∧ '.join(f'{"" if pol else "not "}({src(t)})' for t, pol in p.tests())[:120] or 'always'
            ctx.ob(rid, f'carried-locals[{desc}]', f'{f.mod.relpath}:{st[ys[-1]].lineno}',
                   f'per-statement state kept in locals of process() ({carried}) is re-initialised after a statement is yielded', not missing,
                   f'{missing} keep(s) the value of the finished statement: e.g. a split level left at -1 by a plain `... CASE ... END;` cancels the +1 of the '
                   'next CREATE ... BEGIN, whose body is then cut at every ";"')
    return sorted(stored)


def check_driver_order(ctx, rid):
    """The split-level protocol has two halves: _change_splitlevel (delta and block flags for one token) and the driver
    loop of process().  The flags belong to the statement the token is appended to, so on every path of one iteration the
    classification of the token happens after the `yield`/`_reset()` that closes the previous statement, exactly once,
    on the unmodified (ttype, value), and its result is what is added to self.level before the token is appended."""
    f, lp, (tv, vv) = splitter_loop(ctx)
    paths = enum_paths(lp.body)

    def change_calls(s):
        return [n for n in ast.walk(s) if isinstance(n, ast.Call) and is_attr(n.func, '_change_splitlevel', 'self')]
    n = 0
    for p in paths:
        st = p.stmts()
        desc = ' ∧ '.join(f'{"" if pol else "not "}({src(t)})' for t, pol in p.tests()) or 'always'
        key = f'order[{desc}]'
        calls = [(i, c) for i, s in enumerate(st) for c in change_calls(s)]
        # tests evaluated on the path may contain the call as well
        tcalls = [c for t, _ in p.tests() for c in change_calls(t)]
        loc = f'{f.mod.relpath}:{lp.lineno}'
        if p.exit not in ('fall', 'continue'):
            continue
        n += 1
        if len(calls) + len(tcalls) != 1 or tcalls:
            ctx.ob(rid, key, loc, 'the token is classified by exactly one _change_splitlevel call on the path', False,
                   f'{len(calls) + len(tcalls)} calls on the path: a token is not classified, or classified twice (flags and depth counted twice)')
            continue
        i, c = calls[0]
        loc = f'{f.mod.relpath}:{c.lineno}'
        okargs = len(c.args) == 2 and is_name(c.args[0], tv) and is_name(c.args[1], vv) and not c.keywords
        resets_after = [s for s in st[i + 1:] if is_reset_call(s)]
        yields_after = [s for s in st[i + 1:] if isinstance(s, ast.Expr) and isinstance(s.value, (ast.Yield, ast.YieldFrom))]
        apps = [j for j, s in enumerate(st) if is_append_token(ctx, f, s, tv, vv)[0]]
        # the result reaches self.level
        s = st[i]
        flows = isinstance(s, ast.AugAssign) and isinstance(s.op, ast.Add) and is_attr(s.target, 'level', 'self') and s.value is c
        via = None
        if not flows and isinstance(s, ast.Assign) and len(s.targets) == 1 and isinstance(s.targets[0], ast.Name):
            via = s.targets[0].id
            uses = [u for u in st[i + 1:] if isinstance(u, ast.AugAssign) and isinstance(u.op, ast.Add) and is_attr(u.target, 'level', 'self')
                    and is_name(u.value, via)]
            flows = len(uses) == 1 and (s.value is c or (isinstance(s.value, ast.IfExp) and (s.value.body is c or s.value.orelse is c)))
        before_append = bool(apps) and i < apps[0]
        level_stores = [u for u in st if isinstance(u, (ast.AugAssign, ast.Assign)) and any(is_attr(t, 'level', 'self') for t in (
            u.targets if isinstance(u, ast.Assign) else [u.target]))]
        if not level_stores and not flows and okargs and not resets_after and not yields_after:
            # the level is not kept in self.level (locals?): the flow of the delta cannot be judged by this rule
            carried_ok = via is not None and any(isinstance(u, ast.AugAssign) and isinstance(u.target, ast.Name) and is_name(u.value, via) for u in st[i + 1:]) \
                or any(isinstance(u, ast.AugAssign) and isinstance(u.target, ast.Name) and u.value is c for u in st)
            if carried_ok:
                ctx.ob(rid, key, loc, 'classification follows the reset of the previous statement; its delta is added to the (local) level', before_append,
                       'the token is appended before it is classified')
                continue
            ctx.ob(rid, key, loc, 'the flow of the level delta is recognisable', None, 'no store to self.level and no local level variable fed by the call')
            continue
        ok = okargs and not resets_after and not yields_after and flows and before_append
        why = []
        if not okargs:
            why.append(f'arguments `{src(c)}` are not the loop pair ({tv}, {vv})')
        if resets_after or yields_after:
            why.append('the token is classified BEFORE the previous statement is yielded and self._reset() runs: the flags it sets '
                       '(_is_create, _in_declare, _begin_depth ...) are wiped by the reset, so a CREATE/DECLARE/BEGIN that starts a statement '
                       'right after a ";" is forgotten and its body is cut at the first inner ";"')
        if not flows:
            why.append('the returned delta is not added to self.level exactly once')
        if not before_append:
            why.append('the token is appended before it is classified')
        ctx.ob(rid, key, loc, 'classification follows the reset of the previous statement, once, and its delta is added to self.level before the append', ok,
               '; '.join(why))
    ctx.need(n > 0, 'no path through the splitter loop')
    # the end-of-statement decision reads the level AFTER this token's update (and after the reset of the previous statement)
    for p in paths:
        if not path_feasible(p) or p.exit not in ('fall', 'continue'):
            continue
        evs = [e for e in p.events if e[0] in ('stmt', 'test')]
        sets = [i for i, e in enumerate(evs) if e[0] == 'stmt' and isinstance(e[1], ast.Assign) and any(is_attr(t, 'consume_ws', 'self') for t in e[1].targets)
                and isinstance(e[1].value, ast.Constant) and e[1].value.value is True]
        if not sets:
            continue
        upd = [i for i, e in enumerate(evs) if e[0] == 'stmt' and (
            (isinstance(e[1], (ast.AugAssign, ast.Assign)) and any(is_attr(t, 'level', 'self') for t in (e[1].targets if isinstance(e[1], ast.Assign) else [e[1].target])))
            or is_reset_call(e[1]))]
        last_upd = max(upd) if upd else -1
        # where is self.level read for the decision?  in a test that dominates the store, or in the definition of a name such a test uses
        reads = []
        for i, e in enumerate(evs[:sets[0]]):
            if e[0] == 'test':
                names = {n.id for n in ast.walk(e[1]) if isinstance(n, ast.Name)}
                if any(is_attr(n, 'level', 'self') for n in ast.walk(e[1])):
                    reads.append((i, e[1]))
                for j, d in enumerate(evs[:i]):
                    if d[0] == 'stmt' and isinstance(d[1], ast.Assign) and len(d[1].targets) == 1 and isinstance(d[1].targets[0], ast.Name) \
                            and d[1].targets[0].id in names and any(is_attr(n, 'level', 'self') for n in ast.walk(d[1].value)):
                        reads.append((j, d[1]))
        early = [(i, x) for i, x in reads if i < last_upd]
        desc = ' ∧ '.join(f'{"" if pol else "not "}({src(t)})' for t, pol in p.tests())[:160] or 'always'
        ctx.ob(rid, f'decision[{desc}]', f'{f.mod.relpath}:{evs[sets[0]][1].lineno}',
               'the end-of-statement test reads self.level after the reset of the previous statement and after this token\'s level update', not early,
               f'`{src(early[0][1])[:70]}` is evaluated before `{src(evs[last_upd][1])[:50]}`: the ";" that starts right after a statement which ended at a '
               'non-zero level (GO inside an open parenthesis or BEGIN block) is judged with the stale level and is not treated as a terminator'
               if early else '')
