"""Rules on the entry points, FilterStack and formatter wiring (C02, C04, C06, C08, C10, C15, C19, C20)."""
import ast

from .astutil import (Guards, enum_paths, src, is_name, is_attr, yields_in, atoms, fact_in, assigned_names,
                      exits_always, local_defs)
from .cg import get_cg
from .model import AnalysisError, own_nodes, Cls, Func

RUN = 'sqlparse.engine.filter_stack.FilterStack.run'
FSTACK = 'sqlparse.engine.filter_stack.FilterStack'


def _loc(f, n):
    return f'{f.mod.relpath}:{n.lineno}'


def resolve_call_targets(ctx, f, call):
    cg = get_cg(ctx)
    return cg.callees_of_call(f.qname, call)


def resolves_to(ctx, f, expr, qname):
    cg = get_cg(ctx)
    if not isinstance(expr, (ast.Name, ast.Attribute)):
        return False
    r = cg._resolve_name_value(expr, f, f.mod, cg._enclosing_class(f))
    return any(getattr(t, 'qname', None) == qname for t in r)


class RunModel:
    """Ordered model of FilterStack.run extracted from its AST."""

    def __init__(self, ctx):
        self.ctx = ctx
        f = self.f = ctx.repo.func(RUN)
        ctx.need(len(f.params) >= 2, 'FilterStack.run lost its sql parameter')
        self.sqlp = f.params[1]
        self.encp = f.params[2] if len(f.params) > 2 else None
        body = [s for s in f.node.body if not (isinstance(s, ast.Expr) and isinstance(s.value, ast.Constant))]
        self.tries = [s for s in body if isinstance(s, ast.Try)]
        self.outside = [s for s in body if not isinstance(s, ast.Try)]
        self.steps = []        # (tag, node, in_try, detail)
        for s in body:
            if isinstance(s, ast.Try):
                for t in s.body:
                    self._step(t, True, s)
                for t in s.orelse + s.finalbody:
                    self._step(t, False, s)
            else:
                self._step(s, False, None)

    def _is_process_loop(self, s, listattr):
        """for x in self.<listattr>: [y =] x.process(z)  -> (assigns_back, argname, target)"""
        if isinstance(s, ast.For) and is_attr(s.iter, listattr, 'self') and isinstance(s.target, ast.Name) and len(s.body) == 1:
            b = s.body[0]
            v = b.value if isinstance(b, (ast.Assign, ast.Expr)) else None
            if isinstance(v, ast.Call) and is_attr(v.func, 'process', s.target.id) and len(v.args) == 1 and is_name(v.args[0]):
                tgt = b.targets[0].id if isinstance(b, ast.Assign) and is_name(b.targets[0]) else None
                return True, v.args[0].id, tgt
        return None

    def _step(self, s, in_try, trynode):
        ctx, f = self.ctx, self.f
        if isinstance(s, ast.Assign) and len(s.targets) == 1 and is_name(s.targets[0]) and isinstance(s.value, ast.Call):
            c = s.value
            if resolves_to(ctx, f, c.func, 'sqlparse.lexer.tokenize'):
                self.steps.append(('tokenize', s, in_try, {'var': s.targets[0].id, 'args': [src(a) for a in c.args],
                                                          'kw': {k.arg: src(k.value) for k in c.keywords}}))
                return
            if isinstance(c.func, ast.Attribute) and c.func.attr == 'process' and isinstance(c.func.value, ast.Call) \
                    and resolves_to(ctx, f, c.func.value.func, 'sqlparse.engine.statement_splitter.StatementSplitter'):
                self.steps.append(('split', s, in_try, {'var': s.targets[0].id, 'arg': src(c.args[0]) if c.args else None,
                                                       'fresh': not c.func.value.args}))
                return
        r = self._is_process_loop(s, 'preprocess')
        if r:
            self.steps.append(('preprocess', s, in_try, {'arg': r[1], 'target': r[2]}))
            return
        if isinstance(s, ast.For) and is_name(s.iter) and isinstance(s.target, ast.Name):
            inner = []
            sv = s.target.id
            for t in s.body:
                r1 = self._is_process_loop(t, 'stmtprocess')
                r2 = self._is_process_loop(t, 'postprocess')
                if r1:
                    inner.append(('stmtprocess', t, {'arg': r1[1], 'target': r1[2]}))
                elif r2:
                    inner.append(('postprocess', t, {'arg': r2[1], 'target': r2[2]}))
                elif isinstance(t, ast.If) and any(isinstance(n, ast.Call) and resolves_to(ctx, f, n.func, 'sqlparse.engine.grouping.group')
                                                   for n in ast.walk(t)):
                    calls = [n for n in ast.walk(t) if isinstance(n, ast.Call) and resolves_to(ctx, f, n.func, 'sqlparse.engine.grouping.group')]
                    assign = [b for b in t.body if isinstance(b, ast.Assign) and b.value in calls]
                    inner.append(('group', t, {'test': src(t.test), 'arg': src(calls[0].args[0]) if calls[0].args else None,
                                               'target': assign[0].targets[0].id if assign and is_name(assign[0].targets[0]) else None,
                                               'orelse': bool(t.orelse), 'nbody': len(t.body)}))
                elif isinstance(t, ast.Expr) and isinstance(t.value, ast.Yield):
                    inner.append(('yield', t, {'value': src(t.value.value)}))
                elif any(isinstance(n, ast.Call) and resolves_to(ctx, f, n.func, 'sqlparse.engine.grouping.group') for n in ast.walk(t)):
                    inner.append(('group-unconditional', t, {}))
                else:
                    inner.append(('other', t, {'src': src(t)}))
            self.steps.append(('stmtloop', s, in_try, {'iter': s.iter.id, 'var': sv, 'inner': inner}))
            return
        self.steps.append(('other', s, in_try, {'src': src(s)}))

    def tags(self):
        return [t for t, _, _, _ in self.steps]


def neutral(s):
    """a statement without calls, yields or stores to names (docstring, pass, constant)"""
    if isinstance(s, ast.Pass) or (isinstance(s, ast.Expr) and isinstance(s.value, ast.Constant)):
        return True
    # an assignment of constants/names: no call, no yield, no iteration -> cannot run package code
    if isinstance(s, ast.Assign) and all(isinstance(t, ast.Name) for t in s.targets) and isinstance(s.value, (ast.Constant, ast.Name)):
        return True
    return False


def check_run_pipeline(ctx, rid):
    """run = tokenize -> preprocess -> one splitter -> [group iff _grouping] -> stmtprocess -> postprocess -> yield"""
    m = ctx.shared('runmodel', lambda: RunModel(ctx))
    f = m.f
    steps = [s for s in m.steps if not (s[0] == 'other' and neutral(s[1]))]
    tags = [s[0] for s in steps]
    want = ['tokenize', 'preprocess', 'split', 'stmtloop']
    ok = tags == want
    ctx.ob(rid, 'run:step-order', _loc(f, f.node),
           'FilterStack.run performs tokenize, the preprocess loop, one StatementSplitter().process and the statement loop, in this order',
           ok, f'steps found: {tags}' + ''.join(f'; unrecognised step `{s[3]["src"]}`' for s in steps if s[0] == 'other'))
    if not ok:
        return m
    tok, pre, spl, loop = steps
    sv = tok[3]['var']
    args = tok[3]['args'] + [f'{k}={v}' for k, v in tok[3]['kw'].items()]
    ok = tok[3]['args'][:1] == [m.sqlp]
    ctx.ob(rid, 'run:tokenize-args', _loc(f, tok[1]), 'the lexer is applied to the `sql` argument of run', ok, f'tokenize({", ".join(args)})')
    ok = pre[3]['arg'] == sv and pre[3]['target'] == sv
    ctx.ob(rid, 'run:preprocess-chain', _loc(f, pre[1]), 'each preprocess filter maps the token stream to the token stream', ok,
           f'`{src(pre[1].body[0])}`')
    ok = spl[3]['arg'] == sv and spl[3]['fresh']
    ctx.ob(rid, 'run:split-once', _loc(f, spl[1]),
           'a freshly constructed StatementSplitter processes the (filtered) token stream exactly once, unconditionally', ok,
           f'`{src(spl[1])}`')
    stream2 = spl[3]['var']
    ok = loop[3]['iter'] == stream2
    ctx.ob(rid, 'run:loop-over-statements', _loc(f, loop[1]), 'the statement loop iterates the splitter output', ok, f'iterates `{loop[3]["iter"]}`')
    inner = [i for i in loop[3]['inner'] if not (i[0] == 'other' and neutral(i[1]))]
    itags = [i[0] for i in inner]
    ok = itags == ['group', 'stmtprocess', 'postprocess', 'yield']
    ctx.ob(rid, 'run:per-statement-order', _loc(f, loop[1]),
           'per statement: group iff self._grouping, then stmtprocess filters, then postprocess filters, then yield', ok,
           f'found {itags}' + ''.join(f'; unrecognised `{i[2]["src"]}`' for i in inner if i[0] == 'other'))
    if not ok:
        return m
    g, sp, pp, y = inner
    stv = loop[3]['var']
    ok = g[2]['test'] == 'self._grouping' and g[2]['arg'] == stv and g[2]['target'] == stv and not g[2]['orelse'] and g[2]['nbody'] == 1
    ctx.ob(rid, 'run:group-guard', _loc(f, g[1]), 'grouping.group(stmt) runs exactly when self._grouping, on the statement the splitter yielded', ok,
           f'`{src(g[1])}`')
    ok = sp[2]['arg'] == stv
    ctx.ob(rid, 'run:stmtprocess', _loc(f, sp[1]), 'statement filters receive the statement', ok, f'`{src(sp[1])}`')
    ok = pp[2]['arg'] == stv and pp[2]['target'] == stv
    ctx.ob(rid, 'run:postprocess-chain', _loc(f, pp[1]), 'postprocess filters are chained on the statement', ok, f'`{src(pp[1])}`')
    ok = y[2]['value'] == stv
    ctx.ob(rid, 'run:yield', _loc(f, y[1]), 'the (post-processed) statement is yielded', ok, f'yields `{y[2]["value"]}`')
    # grouping.group returns the statement it was given after calling every pass on it
    gf = ctx.repo.func('sqlparse.engine.grouping.group')
    rets = [n for n in own_nodes(gf.node) if isinstance(n, ast.Return)]
    ok = len(rets) == 1 and is_name(rets[0].value, gf.params[0])
    ctx.ob(rid, 'group:returns-its-argument', _loc(gf, gf.node), 'grouping.group returns the statement object it was given', ok,
           f'returns `{src(rets[0].value) if rets else None}`')
    return m


def stack_usage(ctx, f):
    """How an entry point uses its FilterStack: (ctor call, var, [method calls on var], [attr mutations], return/yield expr)"""
    cg = get_cg(ctx)
    ctor, var = None, None
    for n in own_nodes(f.node):
        if isinstance(n, ast.Assign) and len(n.targets) == 1 and is_name(n.targets[0]) and isinstance(n.value, ast.Call) \
                and resolves_to(ctx, f, n.value.func, FSTACK):
            ctor, var = n.value, n.targets[0].id
            break
    if ctor is None:
        # constructed inline as an argument / receiver: still a per-call object
        for n in own_nodes(f.node):
            if isinstance(n, ast.Call) and resolves_to(ctx, f, n.func, FSTACK):
                ctor = n
                # the name the result of build_filter_stack(...) is bound to, if any
                for a in own_nodes(f.node):
                    if isinstance(a, ast.Assign) and is_name(a.targets[0]) and any(x is n for x in ast.walk(a.value)):
                        var = a.targets[0].id
                break
    return ctor, var


def check_parse_pipeline(ctx, rid):
    repo = ctx.repo
    check_run_pipeline(ctx, rid)
    # parsestream
    f = repo.func('sqlparse.parsestream')
    ctor, var = stack_usage(ctx, f)
    ctx.need(ctor is not None, f'{_loc(f, f.node)}: parsestream no longer constructs engine.FilterStack()')
    ok = not ctor.args and not ctor.keywords
    ctx.ob(rid, 'parsestream:bare-stack', _loc(f, ctor), 'parsestream constructs FilterStack() with no arguments', ok, f'`{src(ctor)}`')
    uses = []
    for n in own_nodes(f.node):
        if isinstance(n, ast.Attribute) and is_name(n.value, var):
            uses.append(n.attr)
    extra = [u for u in uses if u not in ('enable_grouping', 'run')]
    ctx.ob(rid, 'parsestream:stack-usage', _loc(f, f.node),
           'parsestream only calls enable_grouping() and run() on its stack (no filter is installed)',
           not extra and 'enable_grouping' in uses and 'run' in uses, f'uses of the stack: {uses}')
    rets = [n for n in own_nodes(f.node) if isinstance(n, ast.Return)]
    ok = len(rets) == 1 and isinstance(rets[0].value, ast.Call) and is_attr(rets[0].value.func, 'run', var) \
        and [src(a) for a in rets[0].value.args] == f.params[:2][:len(rets[0].value.args)] and len(rets[0].value.args) >= 1
    ctx.ob(rid, 'parsestream:returns-run', _loc(f, f.node), 'parsestream returns stack.run(stream, encoding) unmodified', ok,
           f'returns `{src(rets[0].value) if rets else None}`')
    # parse = tuple(parsestream(sql, encoding))
    p = repo.func('sqlparse.parse')
    rets = [n for n in own_nodes(p.node) if isinstance(n, ast.Return)]
    ok = False
    if len(rets) == 1 and isinstance(rets[0].value, ast.Call) and is_name(rets[0].value.func, 'tuple', 'list') and len(rets[0].value.args) == 1:
        c = rets[0].value.args[0]
        ok = isinstance(c, ast.Call) and resolves_to(ctx, p, c.func, 'sqlparse.parsestream') \
            and [src(a) for a in c.args] == p.params[:len(c.args)] and len(c.args) >= 1 and len(p.node.body) <= 2
    ctx.ob(rid, 'parse:tuple-of-parsestream', _loc(p, p.node), 'parse returns tuple(parsestream(sql, encoding)) and nothing else', ok,
           f'returns `{src(rets[0].value) if rets else None}`')
    # FilterStack.__init__: lists empty, grouping off, only conditional filter is strip_semicolon
    init = repo.func(FSTACK + '.__init__')
    for attr in ('preprocess', 'stmtprocess', 'postprocess'):
        st = [s for s in init.node.body if isinstance(s, ast.Assign) and is_attr(s.targets[0], attr, 'self')]
        ok = len(st) == 1 and isinstance(st[0].value, ast.List) and not st[0].value.elts
        if len(st) == 1 and isinstance(st[0].value, ast.IfExp):
            # `[X()] if strip_semicolon else []`: empty unless the (default False) flag is set
            v = st[0].value
            sp_ = init.params[1] if len(init.params) > 1 else None
            dflt = init.node.args.defaults and isinstance(init.node.args.defaults[-1], ast.Constant) and init.node.args.defaults[-1].value is False
            ok = is_name(v.test, sp_) and bool(dflt) and isinstance(v.orelse, ast.List) and not v.orelse.elts and isinstance(v.body, ast.List)
        if not st:
            # the same choice written as if/else (also the normal form of a conditional expression, normalize.py N2)
            sp_ = init.params[1] if len(init.params) > 1 else None
            dflt = init.node.args.defaults and isinstance(init.node.args.defaults[-1], ast.Constant) and init.node.args.defaults[-1].value is False
            for s_ in init.node.body:
                if isinstance(s_, ast.If) and is_name(s_.test, sp_) and len(s_.body) == 1 and len(s_.orelse) == 1:
                    a_, b_ = s_.body[0], s_.orelse[0]
                    if all(isinstance(x, ast.Assign) and is_attr(x.targets[0], attr, 'self') for x in (a_, b_)):
                        st = [b_]
                        ok = bool(dflt) and isinstance(b_.value, ast.List) and not b_.value.elts and isinstance(a_.value, ast.List)
        ctx.ob(rid, f'FilterStack.__init__:{attr}', _loc(init, init.node), f'self.{attr} starts as a fresh empty list', ok,
               f'`{src(st[0]) if st else "missing"}`')
    st = [s for s in init.node.body if isinstance(s, ast.Assign) and is_attr(s.targets[0], '_grouping', 'self')]
    ok = len(st) == 1 and isinstance(st[0].value, ast.Constant) and st[0].value.value is False
    ctx.ob(rid, 'FilterStack.__init__:_grouping', _loc(init, init.node), 'grouping is off by default', ok, '')
    g = Guards(init.node)
    for n in own_nodes(init.node):
        if isinstance(n, ast.Call) and isinstance(n.func, ast.Attribute) and n.func.attr in ('append', 'extend', 'insert') \
                and isinstance(n.func.value, ast.Attribute) and n.func.value.attr in ('preprocess', 'stmtprocess', 'postprocess'):
            facts = [a for a in g.facts(n) if a[0] != '|']
            sp = init.params[1] if len(init.params) > 1 else None
            ok = (sp, True) in facts
            default_false = init.node.args.defaults and isinstance(init.node.args.defaults[-1], ast.Constant) \
                and init.node.args.defaults[-1].value is False
            ctx.ob(rid, f'FilterStack.__init__:install:{src(n)}', _loc(init, n),
                   'the constructor installs a filter only under its (default False) strip_semicolon flag', ok and bool(default_false),
                   f'`{src(n)}` under guards {facts}')
