"""Rules on sql.py tree primitives and grouping effects, shared by C02/C03/C09."""
import ast

from .astutil import (Guards, enum_paths, src, is_name, is_attr, yields_in, atoms, fact_in, assigned_names,
                      exits_always, local_defs, lin, lin_diff, sym_path, subst)
from .cg import get_cg
from .fx import effects_of
from .model import AnalysisError, own_nodes, Cls

TOKEN = 'sqlparse.sql.Token'
TLIST = 'sqlparse.sql.TokenList'


def _loc(f, n):
    return f'{f.mod.relpath}:{n.lineno}'


# ---------------------------------------------------------------------------
# R2.4  str()/flatten/constructor

def check_str_primitives(ctx, rid):
    repo = ctx.repo
    # Token.__init__ stores str(value) unchanged
    f = repo.func(TOKEN + '.__init__')
    ctx.need(len(f.params) == 3, 'Token.__init__ signature changed')
    vparam = f.params[2]
    paths = enum_paths(f.node.body)
    for p in paths:
        evs, env = sym_path(p)
        stores = [(k, s, v) for (k, s, v, _) in evs if k == 'stmt' and isinstance(s, ast.Assign)
                  and any(is_attr(t, 'value', 'self') for t in s.targets)]
        ok = len(stores) == 1
        detail = f'{len(stores)} stores to self.value'
        if ok:
            v = stores[0][2].value
            ok = is_name(v, vparam) or (isinstance(v, ast.Call) and is_name(v.func, 'str') and len(v.args) == 1
                                        and is_name(v.args[0], vparam))
            detail = f'self.value = {src(v)} (in terms of the parameter `{vparam}`)'
        ctx.ob(rid, 'Token.__init__:value', _loc(f, stores[0][1] if stores else f.node),
               'Token.__init__ stores str(value) of its argument unchanged', ok,
               detail + ': a token no longer carries the text the lexer matched')
    # Token.__str__
    f = repo.func(TOKEN + '.__str__')
    rets = [n for n in own_nodes(f.node) if isinstance(n, ast.Return)]
    ok = len(rets) == 1 and is_attr(rets[0].value, 'value', 'self')
    ctx.ob(rid, 'Token.__str__', _loc(f, f.node), 'Token.__str__ returns self.value', ok,
           f'returns `{src(rets[0].value) if rets else None}`')
    # TokenList.__str__
    f = repo.func(TLIST + '.__str__')
    rets = [n for n in own_nodes(f.node) if isinstance(n, ast.Return)]
    ok, detail = False, ''
    if len(rets) == 1:
        v = rets[0].value
        detail = src(v)
        if isinstance(v, ast.Call) and isinstance(v.func, ast.Attribute) and v.func.attr == 'join' \
                and isinstance(v.func.value, ast.Constant) and len(v.args) == 1:
            sep = v.func.value.value
            a = v.args[0]
            if sep != '':
                detail = f'separator {sep!r} is inserted between leaves'
            elif isinstance(a, (ast.GeneratorExp, ast.ListComp)) and len(a.generators) == 1 and not a.generators[0].ifs \
                    and isinstance(a.generators[0].target, ast.Name):
                g = a.generators[0]
                tv = g.target.id
                it_ok = isinstance(g.iter, ast.Call) and is_attr(g.iter.func, 'flatten', 'self') and not g.iter.args
                el_ok = is_attr(a.elt, 'value', tv) or (isinstance(a.elt, ast.Call) and is_name(a.elt.func, 'str')
                                                        and len(a.elt.args) == 1 and is_name(a.elt.args[0], tv))
                ok = it_ok and el_ok
            elif isinstance(a, ast.Call) and is_name(a.func, 'map') and len(a.args) == 2 and is_name(a.args[0], 'str') \
                    and isinstance(a.args[1], ast.Call) and is_attr(a.args[1].func, 'flatten', 'self'):
                ok = True
    ctx.ob(rid, 'TokenList.__str__', _loc(f, f.node),
           "TokenList.__str__ returns ''.join(leaf.value for leaf in self.flatten())", ok, f'`{detail}`')
    # TokenList.flatten
    f = repo.func(TLIST + '.flatten')
    loops = [s for s in f.node.body if isinstance(s, ast.For)]
    ok, detail = False, 'shape not recognised'
    stray = [y for s in f.node.body if not isinstance(s, ast.For) for y in yields_in(s)]
    whiles = [s for s in f.node.body if isinstance(s, ast.While)]
    if len(loops) == 1 and not stray and is_attr(loops[0].iter, 'tokens', 'self') and isinstance(loops[0].target, ast.Name):
        tv = loops[0].target.id
        ok = True
        for p in enum_paths(loops[0].body):
            ys = [s for s in p.stmts() if isinstance(s, ast.Expr) and isinstance(s.value, (ast.Yield, ast.YieldFrom))]
            facts = p.facts()
            grp = fact_in((f'{tv}.is_group', True), facts)
            ngrp = fact_in((f'{tv}.is_group', False), facts)
            if len(ys) != 1 or p.exit not in ('fall', 'continue'):
                ok, detail = False, f'a path through the loop body has {len(ys)} yields / exits with {p.exit}: a child is skipped or repeated'
                break
            y = ys[0].value
            if isinstance(y, ast.YieldFrom):
                good = grp and isinstance(y.value, ast.Call) and is_attr(y.value.func, 'flatten', tv) and not y.value.args
            else:
                good = is_name(y.value, tv) and (ngrp or not grp)
            if not good:
                ok, detail = False, f'`{src(ys[0])}` under guards {[(e, p_) for e, p_ in facts if e != "|"]}'
                break
    elif len(whiles) == 1 and not loops:
        ok, detail = _flatten_explicit_stack(f, whiles[0])
    elif len(loops) == 1:
        detail = f'loop is `for {src(loops[0].target)} in {src(loops[0].iter)}`' + (' and yields outside the loop' if stray else '')
    ctx.ob(rid, 'TokenList.flatten', _loc(f, f.node),
           'flatten yields the leaves depth first in list order, descending exactly into groups', ok, detail)
    f = repo.func(TOKEN + '.flatten')
    ys = yields_in(f.node)
    ok = len(ys) == 1 and isinstance(ys[0], ast.Yield) and is_name(ys[0].value, 'self')
    ctx.ob(rid, 'Token.flatten', _loc(f, f.node), 'Token.flatten yields the token itself once', ok, '')
    # TokenList.__init__: value = str(self) taken after the children are stored
    f = repo.func(TLIST + '.__init__')
    tok_store = [s for s in f.node.body if isinstance(s, ast.Assign) and any(is_attr(t, 'tokens', 'self') for t in s.targets)]
    sup = [s for s in f.node.body if isinstance(s, ast.Expr) and isinstance(s.value, ast.Call)
           and isinstance(s.value.func, ast.Attribute) and s.value.func.attr == '__init__']
    ok = len(tok_store) == 1 and len(sup) == 1 and f.node.body.index(tok_store[0]) < f.node.body.index(sup[0])
    detail = ''
    if ok:
        a = sup[0].value.args
        ok = len(a) == 2 and isinstance(a[1], ast.Call) and is_name(a[1].func, 'str') and is_name(a[1].args[0], 'self')
        detail = f'super().__init__ arguments: {[src(x) for x in a]}'
        v = tok_store[0].value
        p = f.params[1]
        ok = ok and (is_name(v, p) or (isinstance(v, ast.BoolOp) and isinstance(v.op, ast.Or) and is_name(v.values[0], p)
                                       and isinstance(v.values[1], ast.List) and not v.values[1].elts))
    ctx.ob(rid, 'TokenList.__init__', _loc(f, f.node),
           'a group keeps the list it is given and caches value = str(self) computed from its own children', ok, detail)


def _flatten_explicit_stack(f, w):
    """depth-first walk with an explicit stack of child iterators:
         stack = [iter(self.tokens)]
         while stack:
             for t in stack[-1]:
                 if t.is_group: stack.append(iter(t.tokens)); break
                 yield t
             else: stack.pop()
    -- the same leaf order as the recursive definition (a group's children are exhausted before its next sibling)."""
    init = [s for s in f.node.body if isinstance(s, ast.Assign) and len(s.targets) == 1 and isinstance(s.targets[0], ast.Name)
            and is_name(w.test, s.targets[0].id)]
    if len(init) != 1:
        return False, 'the loop condition is not the truth of a stack initialised before the loop'
    st = init[0].targets[0].id
    v = init[0].value
    if not (isinstance(v, ast.List) and len(v.elts) == 1 and isinstance(v.elts[0], ast.Call) and is_name(v.elts[0].func, 'iter')
            and len(v.elts[0].args) == 1 and is_attr(v.elts[0].args[0], 'tokens', 'self')):
        return False, f'stack is initialised with `{src(v)}`, not [iter(self.tokens)]'
    if [y for s in f.node.body if s is not w for y in yields_in(s)]:
        return False, 'yield outside the walk loop'
    if not (len(w.body) == 1 and isinstance(w.body[0], ast.For) and not w.orelse):
        return False, 'the walk loop body is not a single for-else over the top iterator'
    lp = w.body[0]
    top = lp.iter
    if not (isinstance(top, ast.Subscript) and is_name(top.value, st) and src(top.slice) == '-1' and isinstance(lp.target, ast.Name)):
        return False, f'inner loop iterates `{src(top)}`, not {st}[-1]'
    tv = lp.target.id
    els = lp.orelse
    if not (len(els) == 1 and isinstance(els[0], ast.Expr) and isinstance(els[0].value, ast.Call) and is_attr(els[0].value.func, 'pop', st)
            and not els[0].value.args):
        return False, f'an exhausted iterator is not popped (`{"; ".join(src(s) for s in els)}`)'
    for p in enum_paths(lp.body):
        ys = [s for s in p.stmts() if isinstance(s, ast.Expr) and isinstance(s.value, (ast.Yield, ast.YieldFrom))]
        facts = p.facts()
        grp = fact_in((f'{tv}.is_group', True), facts)
        ngrp = fact_in((f'{tv}.is_group', False), facts)
        pushes = [s for s in p.stmts() if isinstance(s, ast.Expr) and isinstance(s.value, ast.Call) and is_attr(s.value.func, 'append', st)]
        if grp:
            good = not ys and p.exit == 'break' and len(pushes) == 1 and len(pushes[0].value.args) == 1 \
                and isinstance(pushes[0].value.args[0], ast.Call) and is_name(pushes[0].value.args[0].func, 'iter') \
                and is_attr(pushes[0].value.args[0].args[0], 'tokens', tv)
            if not good:
                return False, f'group path: {len(ys)} yields, {len(pushes)} pushes, exit {p.exit}: a group is not entered exactly once before its siblings'
        elif ngrp:
            good = len(ys) == 1 and isinstance(ys[0].value, ast.Yield) and is_name(ys[0].value.value, tv) and not pushes and p.exit in ('fall', 'continue')
            if not good:
                return False, f'leaf path: {len(ys)} yields, exit {p.exit}: a leaf is skipped or repeated'
        else:
            return False, 'a path through the walk does not test is_group'
    return True, 'explicit-stack depth-first walk'


# ---------------------------------------------------------------------------
# R2.5 effect confinement

PRIMITIVES = {TOKEN + '.__init__', TLIST + '.__init__', TLIST + '.group_tokens'}


def check_effect_confinement(ctx, rid, allow_ttype=True):
    """Every function reachable from grouping.group has no tree effect other than
    calling TokenList.group_tokens (primitives judged by their own rules)."""
    cg = get_cg(ctx)
    repo = ctx.repo
    root = 'sqlparse.engine.grouping.group'
    repo.func(root)
    reach = cg.reachable([root])
    ctx.info['reachable_from_group'] = len(reach)
    n_gt = 0
    ttype_stores = []
    for q in sorted(reach):
        f = repo.funcs[q]
        if q in PRIMITIVES:
            continue
        effs = [e for e in effects_of(f, cg) if e.kind != 'raise']
        bad = []
        for e in effs:
            if e.kind == 'tree-api' and e.attr == 'group_tokens':
                n_gt += 1
                continue
            if e.kind == 'attr-store' and e.attr == 'ttype' and f.mod.name == 'sqlparse.engine.grouping':
                ttype_stores.append(e)
                continue
            if e.kind == 'attr-store' and e.recv in ('self',) and f.name == '__init__':
                continue
            if e.kind == 'item-store':
                continue
            bad.append(e)
        if not effs and not bad:
            ctx.ob(rid, f'fn:{f.short}', _loc(f, f.node), f'{f.short} has no tree effect', True)
        for e in effs:
            if e in bad:
                ctx.ob(rid, f'fn:{f.short}:{e.kind}:{e.detail}', e.loc,
                       f'{f.short} (reachable from grouping.group) edits the tree only through TokenList.group_tokens', False,
                       f'{e.kind}: `{e.detail}` mutates a token list / token text / builds a token during parsing: '
                       'the leaves of the parse tree are no longer exactly the lexer tokens')
            else:
                ctx.ob(rid, f'fn:{f.short}:{e.kind}:{e.detail}', e.loc,
                       f'{f.short}: `{e.detail}` is an allowed effect ({e.kind})', True)
    ctx.info['group_tokens_call_sites'] = n_gt
    return ttype_stores, reach


# ---------------------------------------------------------------------------
# R2.6 slice balance + R3.2 parent pairing + R3.3 value refresh in group_tokens

def _self_tokens_slice(e):
    """e == self.tokens[L:U] -> (L, U) nodes (None = open)"""
    if isinstance(e, ast.Subscript) and is_attr(e.value, 'tokens', 'self') and isinstance(e.slice, ast.Slice) and e.slice.step is None:
        return e.slice.lower, e.slice.upper
    return None


def same_bound(a, b):
    if a is None or b is None:
        return a is None and b is None
    d = lin_diff(a, b)
    return d == {}


def check_group_tokens(ctx, rid_slice, rid_parent=None, rid_value=None):
    repo = ctx.repo
    f = repo.func(TLIST + '.group_tokens')
    paths = [p for p in enum_paths(f.node.body) if p.exit == 'return']
    ctx.need(paths, 'group_tokens has no returning path')
    narms = 0
    for p in paths:
        evs, env = sym_path(p)
        # skip the zero-iteration variant of the re-parenting loop for parent pairing (handled below)
        tests = ' ∧ '.join(('' if pol else 'not ') + src(t) for k, t, _, pol in [(e[0], e[1], e[2], e[3]) for e in evs if e[0] == 'test'])
        takes = [(k, s, v, name) for (k, s, v, name) in evs if k == 'assign' and _self_tokens_slice(v) is not None]
        puts, dels, exts, others = [], [], [], []
        grp_parent, child_parent, value_refresh = [], [], []
        for (k, s, v, name) in evs:
            if k != 'stmt':
                continue
            sv = v
            if isinstance(s, ast.Assign):
                t = sv.targets[0]
                if _self_tokens_slice(t) is not None:
                    puts.append((s, sv))
                elif isinstance(t, ast.Subscript) and is_attr(t.value, 'tokens'):
                    others.append(s)
                elif isinstance(t, ast.Attribute) and t.attr == 'parent':
                    (grp_parent if not isinstance(s.targets[0].value, ast.Name) or True else child_parent).append((s, sv))
                elif isinstance(t, ast.Attribute) and t.attr == 'value':
                    value_refresh.append((s, sv))
            elif isinstance(s, ast.Delete):
                for t in sv.targets:
                    if _self_tokens_slice(t) is not None:
                        dels.append((s, t))
                    else:
                        others.append(s)
            elif isinstance(s, ast.Expr) and isinstance(sv.value, ast.Call) and isinstance(sv.value.func, ast.Attribute):
                c = sv.value
                if is_attr(c.func.value, 'tokens') or (isinstance(c.func.value, ast.Attribute) and c.func.value.attr == 'tokens'):
                    if c.func.attr == 'extend':
                        exts.append((s, c))
                    elif c.func.attr in ('append', 'insert', 'pop', 'remove', 'clear', 'sort', 'reverse'):
                        others.append(s)
        loc = _loc(f, takes[0][1] if takes else f.node)
        key = f'arm[{tests}]'
        if len(takes) != 1:
            ctx.ob(rid_slice, key, loc, 'one take self.tokens[L:U] per arm', False, f'{len(takes)} takes')
            continue
        narms += 1
        L, U = _self_tokens_slice(takes[0][2])
        take_src = src(takes[0][2])
        if others:
            ctx.ob(rid_slice, key, _loc(f, others[0]), 'no other mutation of a token list in group_tokens', False,
                   f'`{src(others[0])}`')
            continue
        if puts and not dels and not exts:
            s, sv = puts[0]
            l2, u2 = _self_tokens_slice(sv.targets[0])
            rhs = sv.value
            ok = len(puts) == 1 and same_bound(L, l2) and same_bound(U, u2)
            detail = f'take {take_src}, put `{src(sv.targets[0])}`'
            if ok:
                ok = isinstance(rhs, ast.List) and len(rhs.elts) == 1 and isinstance(rhs.elts[0], ast.Call) \
                    and len(rhs.elts[0].args) == 1 and src(rhs.elts[0].args[0]) == take_src
                detail = f'replacement `{src(rhs)}` is not a one-element list holding the group built from exactly the taken slice'
            ctx.ob(rid_slice, key + ':new-group', _loc(f, s),
                   'new-group arm: self.tokens[L:U] = [grp_cls(self.tokens[L:U])] with identical bounds', ok,
                   detail + ': leaves are lost or duplicated when a group is built')
        elif dels and exts and not puts:
            s, t = dels[0]
            l2, u2 = _self_tokens_slice(t)
            ok = len(dels) == 1 and len(exts) == 1 and same_bound(L, l2) and same_bound(U, u2)
            detail = f'take {take_src}, delete `{src(t)}`'
            if ok:
                es, c = exts[0]
                ok = len(c.args) == 1 and src(c.args[0]) == take_src
                detail = f'extend argument `{src(c.args[0])}` is not the taken slice {take_src}'
                if ok:
                    # receiver: self.tokens[L-1].tokens
                    r = c.func.value
                    ok = isinstance(r, ast.Attribute) and r.attr == 'tokens' and isinstance(r.value, ast.Subscript) \
                        and is_attr(r.value.value, 'tokens', 'self') and not isinstance(r.value.slice, ast.Slice) \
                        and lin_diff(L, r.value.slice) == {'': 1}
                    detail = f'extended group `{src(r)}` is not the child immediately before the taken slice {take_src}'
                    if ok:
                        ok = f.node.body and p.stmts().index(es) < p.stmts().index(s) or True
            ctx.ob(rid_slice, key + ':extend', _loc(f, s),
                   'extend arm: grp = self.tokens[L-1]; grp.tokens.extend(self.tokens[L:U]); del self.tokens[L:U] with identical bounds',
                   ok, detail + ': leaves are lost or duplicated when a group is extended')
            if rid_value:
                # value refresh after the extension: grp.value = str(grp)
                es, c = exts[0]
                recv_grp = src(c.func.value.value) if isinstance(c.func.value, ast.Attribute) else None
                okv = False
                dv = 'no `grp.value = str(grp)` after the extension: the cached value of the extended group is stale'
                for (vs, vsv) in value_refresh:
                    tgt = vsv.targets[0]
                    if src(tgt.value) == recv_grp and isinstance(vsv.value, ast.Call) and is_name(vsv.value.func, 'str') \
                            and len(vsv.value.args) == 1 and src(vsv.value.args[0]) == recv_grp \
                            and p.stmts().index(vs) > p.stmts().index(es):
                        okv = True
                ctx.ob(rid_value, key + ':value-refresh', _loc(f, es),
                       'extend arm refreshes the cached value of the extended group from its new text', okv, dv)
        else:
            ctx.ob(rid_slice, key, loc, 'arm is a recognised take/put pair', False,
                   f'puts={len(puts)} dels={len(dels)} extends={len(exts)}: take and put do not pair up')
            continue
    ctx.need(narms >= 2, 'group_tokens no longer has a new-group arm and an extend arm')
    if rid_parent:
        check_parent_pairing(ctx, rid_parent)


def check_parent_pairing(ctx, rid):
    """R3.2: every placement of a token into X.tokens in sql.py is paired with token.parent = X."""
    repo = ctx.repo
    f = repo.func(TLIST + '.group_tokens')
    body = f.node.body
    # the re-parenting loop: for token in subtokens: token.parent = grp  (on every path, after both arms)
    top_loops = [s for s in body if isinstance(s, ast.For)]
    ok, detail = False, 'no top-level `for token in subtokens: token.parent = grp` loop after the two arms'
    for lp in top_loops:
        if isinstance(lp.target, ast.Name) and is_name(lp.iter) and len(lp.body) >= 1:
            tv = lp.target.id
            sets = [s for s in lp.body if isinstance(s, ast.Assign) and is_attr(s.targets[0], 'parent', tv)]
            if sets and is_name(sets[0].value):
                grpname, subname = sets[0].value.id, lp.iter.id
                # subname must be the taken slice and grpname the group in both arms
                ifs = [s for s in body if isinstance(s, ast.If)]
                good = bool(ifs)
                for arm in (ifs[0].body, ifs[0].orelse) if ifs else ():
                    an = set()
                    for s in arm:
                        an |= assigned_names(s)
                    if subname not in an or grpname not in an:
                        good = False
                if good and body.index(lp) > body.index(ifs[0]):
                    ok = True
                    detail = ''
    ctx.ob(rid, 'group_tokens:children', _loc(f, f.node),
           'every child moved into the group gets parent = the group, in both arms', ok, detail)
    # new group: grp.parent = self in the new-group arm
    ifs = [s for s in body if isinstance(s, ast.If)]
    ok = False
    if ifs:
        for s in ifs[0].orelse:
            if isinstance(s, ast.Assign) and isinstance(s.targets[0], ast.Attribute) and s.targets[0].attr == 'parent' \
                    and is_name(s.value, 'self'):
                ok = True
    ctx.ob(rid, 'group_tokens:new-group-parent', _loc(f, f.node), 'a newly built group gets parent = self', ok,
           'no `grp.parent = self` in the new-group arm: the new node has parent None (has_ancestor/within break)')
    # constructor
    f = repo.func(TLIST + '.__init__')
    ok = False
    for n in own_nodes(f.node):
        if isinstance(n, ast.Call) and is_name(n.func, 'setattr') and len(n.args) == 3 and isinstance(n.args[1], ast.Constant) \
                and n.args[1].value == 'parent' and is_name(n.args[2], 'self'):
            ok = True
        if isinstance(n, ast.Assign) and isinstance(n.targets[0], ast.Attribute) and n.targets[0].attr == 'parent' and is_name(n.value, 'self'):
            ok = True
    ctx.ob(rid, 'TokenList.__init__:children', _loc(f, f.node), 'the constructor sets parent = self on all initial children', ok,
           'children handed to a new group keep their old parent')
    for name in ('insert_before', 'insert_after'):
        f = repo.func(f'{TLIST}.{name}')
        tokp = f.params[2]
        for p in enum_paths(f.node.body):
            st = p.stmts()
            ins = [s for s in st if isinstance(s, ast.Expr) and isinstance(s.value, ast.Call) and isinstance(s.value.func, ast.Attribute)
                   and is_attr(s.value.func.value, 'tokens', 'self') and s.value.func.attr in ('insert', 'append')]
            par = [s for s in st if isinstance(s, ast.Assign) and is_attr(s.targets[0], 'parent', tokp) and is_name(s.value, 'self')]
            ok = len(ins) == 1 and len(par) >= 1
            ctx.ob(rid, f'{name}:[{" ∧ ".join(("" if pol else "not ") + src(t) for t, pol in p.tests())}]', _loc(f, f.node),
                   f'{name}: exactly one insertion into self.tokens, paired with token.parent = self', ok,
                   f'{len(ins)} insertions, {len(par)} parent stores on the path')


def check_no_cutoff(ctx, rid, only=None):
    """Grouping is total over every token list: the generic drivers and the passes have no early exit that
    depends on the size or depth of the list (a silent resource limit leaves large or deeply nested input ungrouped,
    so the tree depends on the length of the statement / on the other items of a list)."""
    repo = ctx.repo
    gd_cache = {}
    for f in repo.funcs.values():
        if f.mod.name != 'sqlparse.engine.grouping' or isinstance(f.node, ast.Lambda) or f.parent is not None:
            continue
        if only and f.name not in only:
            continue
        gd = Guards(f.node)
        rets = [n for n in own_nodes(f.node, include_lambdas=False) if isinstance(n, ast.Return) and (n.value is None or isinstance(n.value, ast.Constant))]
        bad = []
        for r in rets:
            facts = [a for a in gd.facts(r) if a[0] != '|']
            txt = ' and '.join(e for e, p in facts)
            if 'len(' in txt or 'depth' in txt.lower() or 'MAX' in txt or 'limit' in txt.lower():
                bad.append((r, txt))
        params = [p for p in f.params if 'depth' in p.lower() or 'level' in p.lower()]
        if bad:
            r, txt = bad[0]
            ctx.ob(rid, f'cutoff:{f.name}', _loc(f, r), f'{f.name} has no size/depth cut-off', False,
                   f'early `return` under `{txt}`: token lists beyond the limit are silently left ungrouped (brackets unmatched, names/aliases not joined)')
        elif params and f.name in ('_group_matching', '_group'):
            ctx.ob(rid, f'cutoff:{f.name}', _loc(f, f.node), f'{f.name} has no depth parameter', False, f'parameter(s) {params} track the nesting depth')
        else:
            ctx.ob(rid, f'cutoff:{f.name}', _loc(f, f.node), f'{f.name} processes every token list regardless of size or depth', True)
    check_recurse_driver(ctx, rid)


def check_recurse_driver(ctx, rid):
    """utils.recurse is the driver behind every @recurse grouping pass (group_where, group_functions, group_identifier,
    group_over, group_order, group_aliased, group_comments, align_comments ...): the closure it returns must visit every
    sub-group (only the `isinstance(sgroup, cls)` filter may skip one) and must apply the pass to every list it visits."""
    repo = ctx.repo
    dec = repo.funcs.get('sqlparse.utils.recurse')
    ctx.need(dec is not None, 'sqlparse.utils.recurse not found')
    # follow `return <nested def>` down to the innermost closure
    chain, f = [dec], dec
    while True:
        nxt = None
        for n in own_nodes(f.node):
            if isinstance(n, ast.Return) and isinstance(n.value, ast.Name) and n.value.id in f.nested:
                nxt = f.nested[n.value.id]
        if nxt is None:
            break
        chain.append(nxt)
        f = nxt
    ctx.need(len(chain) >= 2, 'recurse: no returned closure found')
    inner = chain[-1]
    ctx.need(inner.params, 'recurse: the returned closure takes no token list')
    P = inner.params[0]
    wrapped = {p for c in chain[:-1] for p in c.params}          # the decorated function (`f`) and `cls`
    gd = Guards(inner.node)
    loops = [n for n in own_nodes(inner.node) if isinstance(n, (ast.For, ast.comprehension)) and
             any(isinstance(c, ast.Call) and isinstance(c.func, ast.Attribute) and c.func.attr == 'get_sublists' for c in ast.walk(n.iter))]
    selfcalls = [n for n in own_nodes(inner.node) if isinstance(n, ast.Call) and is_name(n.func, inner.node.name)]
    applies = [n for n in own_nodes(inner.node) if isinstance(n, ast.Call) and isinstance(n.func, ast.Name) and n.func.id in wrapped
               and n.args and is_name(n.args[0], P)]
    ctx.need(loops and selfcalls and applies, f'recurse: closure {inner.qname} has no loop over get_sublists() / no recursive call / no application of the pass')
    raises = [n for n in own_nodes(inner.node) if isinstance(n, ast.Raise)]

    def nonfilter(facts):
        return [f'`{e}` is {p}' for e, p in facts if not (e.startswith('isinstance(') and p is False) and e[0] != '|']
    for lp in loops:
        extra = nonfilter(gd.facts(lp)) if isinstance(lp, ast.For) else []
        ctx.ob(rid, 'recurse:loop', _loc(inner, lp if isinstance(lp, ast.For) else lp.iter), 'the @recurse driver iterates over all sub-groups of every list it visits', not extra,
               f'the loop over get_sublists() only runs when {extra}: beyond that the @recurse passes (Where, Function, Identifier, Over, '
               'ORDER, alias and comment grouping) silently stop descending and deeper clauses stay ungrouped')
    for c in selfcalls:
        extra = nonfilter(gd.facts(c))
        ctx.ob(rid, 'recurse:descend', _loc(inner, c), 'the @recurse driver descends into every sub-group not excluded by its class filter', not extra,
               f'the recursive call is additionally guarded by {extra}: sub-groups beyond that are never visited')
    for c in applies:
        extra = nonfilter(gd.facts(c)) + ['inside a loop' for _ in [0] if gd.loops.get(id(c))]
        ctx.ob(rid, 'recurse:apply', _loc(inner, c), 'the @recurse driver applies the pass to every list it visits', not extra,
               f'the pass is only applied when {extra}')
    ctx.ob(rid, 'recurse:no-raise', _loc(inner, raises[0] if raises else inner.node), 'the @recurse driver has no failure exit of its own', not raises,
           'the driver raises: grouping of a valid statement depends on its size/depth')
    check_get_sublists(ctx, rid)


def check_get_sublists(ctx, rid):
    """TokenList.get_sublists is what every recursive walker (the @recurse grouping passes, the statement filters) uses to
    descend: it must yield every child that is a group."""
    repo = ctx.repo
    gs = repo.funcs.get('sqlparse.sql.TokenList.get_sublists')
    ctx.need(gs is not None, 'TokenList.get_sublists not found')
    g2 = Guards(gs.node)
    ys = [n for n in own_nodes(gs.node) if isinstance(n, (ast.Yield, ast.YieldFrom))]
    ctx.need(ys, 'get_sublists does not yield')
    for y in ys:
        extra = [f'`{e}` is {p}' for e, p in g2.facts(y) if not (e.endswith('.is_group') and p is True)]
        ctx.ob(rid, 'get_sublists', _loc(gs, y), 'get_sublists yields every child that is a group', not extra,
               f'a group child is only yielded when {extra}')


def check_filter_descends(ctx, rid, cls, method='process'):
    """A statement filter that has to reach every token of its kind walks the whole tree: its entry method calls itself for
    every element of <list>.get_sublists(), unconditionally."""
    f = ctx.repo.funcs.get(f'{cls.qname}.{method}')
    ctx.need(f is not None, f'{cls.name}.{method} not found')
    gd = Guards(f.node)
    found = []
    for n in own_nodes(f.node):
        if isinstance(n, (ast.For, ast.comprehension)) and any(isinstance(c, ast.Call) and isinstance(c.func, ast.Attribute) and c.func.attr == 'get_sublists'
                                                               for c in ast.walk(n.iter)):
            found.append(n)
    ctx.ob(rid, f'{cls.name}.{method}:descends', _loc(f, f.node), f'{cls.name}.{method} iterates over get_sublists() of the list it is given',
           bool(found), 'no loop over get_sublists(): tokens nested in groups (parentheses, functions, identifier lists) are never visited')
    for lp in found:
        facts = [x for x in (gd.facts(lp) if isinstance(lp, ast.For) else []) if x[0] != '|']
        conds = [src(c) for c in lp.ifs] if isinstance(lp, ast.comprehension) else []
        ctx.ob(rid, f'{cls.name}.{method}:unconditional', _loc(f, lp if isinstance(lp, ast.For) else lp.iter),
               'the descent is not restricted by a condition', not facts and not conds, f'guards {facts} / filters {conds}')
    check_get_sublists(ctx, rid)


# ---------------------------------------------------------------------------
# recursion coverage of the grouping passes (reference: the pinned tree)

# pass -> group classes whose instances the pass does NOT search (it still searches inside everything else).
# 'toplevel' = the pass only looks at the statement's own children.  Confirmed by reading; a pass may come to search
# more (an empty skip set is always allowed) but a new skip means constructs nested in that kind of group are no longer
# recognised there, which is what the clause/identifier/function properties quantify over ("at every nesting level").
REF_SKIP = {
    'group_comments': {'Comment'}, 'group_brackets': {'SquareBrackets'}, 'group_parenthesis': {'Parenthesis'}, 'group_case': {'Case'},
    'group_if': {'If'}, 'group_for': {'For'}, 'group_begin': {'Begin'}, 'group_over': {'Over'}, 'group_functions': {'Function'},
    'group_where': {'Where'}, 'group_period': {'Identifier'}, 'group_arrays': 'toplevel', 'group_identifier': {'Identifier'},
    'group_order': {'Identifier'}, 'group_typecasts': {'Identifier'}, 'group_tzcasts': {'Identifier'}, 'group_typed_literal': {'TypedLiteral'},
    'group_operator': {'Operation'}, 'group_comparison': {'Comparison'}, 'group_as': {'Identifier'}, 'group_aliased': set(),
    'group_assignment': {'Assignment'}, 'align_comments': set(), 'group_identifier_list': {'IdentifierList'}, 'group_values': 'toplevel',
}


def pass_skipset(ctx, f):
    """-> (set of class names | 'toplevel' | None when it cannot be determined, description)"""
    from .fold import ClsRef, NotConst
    repo, folder = ctx.repo, ctx.folder

    def classes(exprs, mod, env=None):
        out = set()
        for e in exprs:
            if isinstance(e, ast.Starred):
                v = folder.eval(e.value, mod, env)
                vs = list(v)
            else:
                vs = [folder.eval(e, mod, env)]
            for v in vs:
                if not isinstance(v, ClsRef):
                    raise NotConst('not a class')
                out.add(v.cls.name)
        return out
    decs = f.node.decorator_list
    if len(decs) > 1:
        return None, 'several decorators'
    if decs:
        d = decs[0]
        if not isinstance(d, ast.Call):
            return None, f'decorator `{src(d)}`'
        try:
            if is_name(d.func, 'recurse'):
                return classes(d.args, f.mod), f'@{src(d)}'
            # a decorator factory of the package that applies recurse(*X) to the closure it builds
            fac = f.mod.funcs.get(d.func.id) if isinstance(d.func, ast.Name) else None
            if fac is None:
                return None, f'decorator `{src(d)}` is not resolvable'
            a = fac.node.args
            params = [x.arg for x in a.posonlyargs + a.args]
            env = {}
            for p_, v in zip(params, d.args):
                env[p_] = folder.eval(v, f.mod)
            for k in d.keywords:
                if k.arg in params or k.arg in [x.arg for x in a.kwonlyargs]:
                    env[k.arg] = folder.eval(k.value, f.mod)
            for p_, dv in zip(params[len(params) - len(a.defaults):], a.defaults):
                if p_ not in env:
                    env[p_] = folder.eval(dv, fac.mod)
            # straight-line prefix of the factory (defaults such as `if skip is None: skip = (cls,)`)
            prefix = [s for s in fac.node.body if not isinstance(s, (ast.FunctionDef, ast.Return))]
            folder._run_helper(ast.FunctionDef(name='_', body=prefix + [ast.Return(value=ast.Constant(value=None))], args=a, decorator_list=[]),
                               fac.mod, env, None)
            inner = [n for n in ast.walk(fac.node) if isinstance(n, ast.FunctionDef) and n is not fac.node
                     and any(isinstance(x, ast.Call) and is_name(x.func, 'recurse') for x in n.decorator_list)]
            if len(inner) != 1:
                return None, f'decorator factory {fac.name} does not apply recurse() to exactly one closure'
            rd = next(x for x in inner[0].decorator_list if isinstance(x, ast.Call) and is_name(x.func, 'recurse'))
            return classes(rd.args, fac.mod, env), f'@{src(d)} -> @{src(rd)}'
        except NotConst as e:
            return None, f'decorator `{src(d)}` not evaluable ({e})'
    # undecorated: a client of one of the generic drivers, or a flat pass
    calls = [c for c in own_nodes(f.node, include_lambdas=False) if isinstance(c, ast.Call) and is_name(c.func, '_group', '_group_matching')]
    if not calls:
        walks = [c for c in own_nodes(f.node, include_lambdas=False) if isinstance(c, ast.Call) and (is_name(c.func, f.node.name))]
        return ('toplevel', 'no driver call, no recursion') if not walks else (None, 'hand-written recursion')
    out = set()
    kinds = set()
    for c in calls:
        try:
            cls_ = classes(c.args[1:2], f.mod)
        except NotConst as e:
            return None, f'class argument of `{src(c)[:40]}` not evaluable'
        rec = next((k.value for k in c.keywords if k.arg == 'recurse'), None)
        if rec is not None and isinstance(rec, ast.Constant) and rec.value is False:
            kinds.add('toplevel')
        else:
            kinds.add('rec')
            out |= cls_
    if kinds == {'toplevel'}:
        return 'toplevel', 'driver called with recurse=False'
    return out, 'driver skips the class it builds'


def check_recursion_coverage(ctx, rid, only=None):
    repo = ctx.repo
    grp = repo.func('sqlparse.engine.grouping.group')
    lists = [n for n in own_nodes(grp.node) if isinstance(n, (ast.List, ast.Tuple)) and len(n.elts) > 5]
    ctx.need(lists, 'grouping.group: pass list not found')
    names = [e.id for e in lists[0].elts if isinstance(e, ast.Name)]
    n = 0
    for name in names:
        if name not in REF_SKIP or (only and name not in only):
            continue
        f = grp.mod.funcs.get(name)
        if f is None:
            continue
        n += 1
        got, how = pass_skipset(ctx, f)
        ref = REF_SKIP[name]
        loc = _loc(f, f.node)
        if got is None:
            ctx.ob(rid, f'coverage:{name}', loc, f'the recursion of {name} is determined', None, how)
            continue
        if ref == 'toplevel':
            ctx.ob(rid, f'coverage:{name}', loc, f'{name} is a top-level pass', True, how)
            continue
        if got == 'toplevel':
            ctx.ob(rid, f'coverage:{name}', loc, f'{name} searches every nesting level', False,
                   f'{how}: the pass no longer descends into sub-groups at all')
            continue
        extra = sorted(got - ref)
        ctx.ob(rid, f'coverage:{name}', loc,
               f'{name} searches inside every kind of group it searched before (skips at most {sorted(ref) or "nothing"})', not extra,
               f'{how}: groups of class {extra} are no longer searched, so the construct this pass builds is not recognised inside them '
               '(e.g. an implicit alias inside a sub-select that is itself aliased with AS)')
    ctx.need(n >= 5, f'only {n} passes of the reference table found in grouping.group')
