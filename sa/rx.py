"""Regex automata (DESIGN 2.6).

Patterns are parsed with the interpreter's own ``re._parser`` and analysed as
languages: minimum width, first-character sets, ordered Thompson program,
EDA (exponential ambiguity) test on the epsilon-free self product, the
leftmost-first *extent automaton* (ordered thread-list simulation explored
symbolically over the atoms of the alphabet partition) and a small DFA kit.

Character classes are bitsets over DOM (the whole BMP plus astral
representatives); membership is taken from the stdlib engine applied to
single characters under the flags in force (IGNORECASE|UNICODE for the lexer).
"""
import re
import re._constants as sc
import re._parser as sp

LEXFLAGS = re.IGNORECASE | re.UNICODE

ASTRAL = [0x10000, 0x10400, 0x10428, 0x104B0, 0x1D7CE, 0x1E900, 0x1F600, 0x20000, 0xE0001, 0x10FFFF]
DOM = [chr(i) for i in range(0x10000)] + [chr(i) for i in ASTRAL]
DOMSTR = ''.join(DOM)
NDOM = len(DOM)
ALL = (1 << NDOM) - 1
_IDX = {c: i for i, c in enumerate(DOM)}


class Unsupported(Exception):
    pass


def bit(ch):
    return 1 << _IDX[ch]


def bits_of(chars):
    b = 0
    for c in chars:
        b |= 1 << _IDX[c]
    return b


def rep(bs):
    """a representative character of a non-empty bitset (prefers printable ASCII)."""
    for lo, hi in ((0x61, 0x7b), (0x30, 0x3a), (0x21, 0x7f), (0, NDOM)):
        m = bs & (((1 << hi) - 1) ^ ((1 << lo) - 1))
        if m:
            return DOM[(m & -m).bit_length() - 1]
    raise ValueError('empty set')


def chars_of(bs, limit=20):
    out = []
    while bs and len(out) < limit:
        l = bs & -bs
        out.append(DOM[l.bit_length() - 1])
        bs ^= l
    return out


_cs_cache = {}
_CAT = {sc.CATEGORY_DIGIT: r'\d', sc.CATEGORY_NOT_DIGIT: r'\D', sc.CATEGORY_SPACE: r'\s',
        sc.CATEGORY_NOT_SPACE: r'\S', sc.CATEGORY_WORD: r'\w', sc.CATEGORY_NOT_WORD: r'\W'}


def _esc(cp):
    return '\\x%02x' % cp if cp < 256 else ('\\u%04x' % cp if cp < 0x10000 else '\\U%08x' % cp)


def atom_src(op, av):
    if op is sc.LITERAL:
        return _esc(av)
    if op is sc.NOT_LITERAL:
        return '[^%s]' % _esc(av)
    if op is sc.ANY:
        return '.'
    if op is sc.IN:
        parts, neg = [], False
        for o, a in av:
            if o is sc.NEGATE:
                neg = True
            elif o is sc.LITERAL:
                parts.append(_esc(a))
            elif o is sc.RANGE:
                parts.append('%s-%s' % (_esc(a[0]), _esc(a[1])))
            elif o is sc.CATEGORY:
                parts.append(_CAT[a])
            else:
                raise Unsupported(f'class item {o}')
        return '[%s%s]' % ('^' if neg else '', ''.join(parts))
    raise Unsupported(str(op))


def charset_src(src, flags):
    """bitset of DOM characters matched by the single-character pattern src."""
    flags &= (re.IGNORECASE | re.UNICODE | re.DOTALL | re.ASCII)
    k = (src, flags)
    v = _cs_cache.get(k)
    if v is None:
        cre = re.compile(src, flags)
        buf = bytearray((NDOM + 7) // 8)
        for m in cre.finditer(DOMSTR):
            i = m.start()
            buf[i >> 3] |= 1 << (i & 7)
        v = int.from_bytes(buf, 'little')
        _cs_cache[k] = v
    return v


def charset(op, av, flags):
    return charset_src(atom_src(op, av), flags)


def cls(src, flags=LEXFLAGS):
    return charset_src(src, flags)


WORD = None


def word_set():
    global WORD
    if WORD is None:
        WORD = charset_src(r'\w', re.UNICODE)
    return WORD


def parse(pattern, flags=LEXFLAGS):
    return sp.parse(pattern, flags)


def eff_flags(tree, flags):
    return flags | tree.state.flags


CHAR_OPS = (sc.LITERAL, sc.NOT_LITERAL, sc.ANY, sc.IN)

# ---------------------------------------------------------------------------
# structural queries


def min_width(tree):
    return tree.getwidth()[0]


def lookarounds(tree):
    """sub-patterns inside look-around assertions (recursively)."""
    out = []

    def rec(seq):
        for op, av in seq:
            if op in (sc.ASSERT, sc.ASSERT_NOT):
                out.append((op, av[0], av[1]))
                rec(av[1])
            elif op is sc.BRANCH:
                for a in av[1]:
                    rec(a)
            elif op is sc.SUBPATTERN:
                rec(av[3])
            elif op in (sc.MAX_REPEAT, sc.MIN_REPEAT, sc.POSSESSIVE_REPEAT):
                rec(av[2])
            elif op is sc.ATOMIC_GROUP:
                rec(av)
    rec(tree)
    return out


def first_set(tree, flags=LEXFLAGS):
    """(bitset of possible first characters, nullable) -- look-arounds and
    anchors are treated as epsilon (over-approximation)."""
    flags = eff_flags(tree, flags)
    groups = {}

    def seq_first(seq):
        acc, nullable = 0, True
        for op, av in seq:
            f, n = item_first(op, av)
            if nullable:
                acc |= f
            nullable = nullable and n
            if not nullable:
                break
        return acc, nullable

    def item_first(op, av):
        if op in CHAR_OPS:
            return charset(op, av, flags), False
        if op is sc.BRANCH:
            acc, nullable = 0, False
            for a in av[1]:
                f, n = seq_first(a)
                acc |= f
                nullable = nullable or n
            return acc, nullable
        if op is sc.SUBPATTERN:
            if av[0]:
                groups[av[0]] = av[3]
            return seq_first(av[3])
        if op in (sc.MAX_REPEAT, sc.MIN_REPEAT, sc.POSSESSIVE_REPEAT):
            f, n = seq_first(av[2])
            return f, n or av[0] == 0
        if op in (sc.AT, sc.ASSERT, sc.ASSERT_NOT):
            return 0, True
        if op is sc.GROUPREF:
            return seq_first(groups[av])
        if op is sc.ATOMIC_GROUP:
            return seq_first(av)
        raise Unsupported(str(op))
    return seq_first(tree)


def literal_words(pattern):
    """If the pattern denotes a finite set of literal strings (no classes,
    no repeats) return it, else None."""
    try:
        tree = sp.parse(pattern)
    except re.error:
        return None

    def seq_words(seq):
        words = ['']
        for op, av in seq:
            if op is sc.LITERAL:
                words = [w + chr(av) for w in words]
            elif op is sc.BRANCH:
                alts = []
                for a in av[1]:
                    s = seq_words(a)
                    if s is None:
                        return None
                    alts += s
                words = [w + a for w in words for a in alts]
            elif op is sc.SUBPATTERN:
                s = seq_words(av[3])
                if s is None:
                    return None
                words = [w + a for w in words for a in s]
            else:
                return None
            if len(words) > 512:
                return None
        return words
    return seq_words(tree)


# ---------------------------------------------------------------------------
# ordered Thompson program

class Prog:
    """instructions: ('char', bitset) ('split', x, y) [x preferred] ('jmp', x)
    ('match',) ('at', kind) ('look', ahead?, negate?, subprog)"""

    def __init__(self, pattern, flags=LEXFLAGS, group_subst=None, drop_lookbehind=False,
                 tree=None):
        self.pattern = pattern
        self.tree = tree if tree is not None else sp.parse(pattern, flags)
        self.flags = eff_flags(self.tree, flags) if tree is None else flags
        self.ins = []
        self.groups = {}
        self.group_subst = group_subst or {}
        self.drop_lookbehind = drop_lookbehind
        self._comp(self.tree)
        self._emit(('match',))

    def _emit(self, i):
        self.ins.append(i)
        return len(self.ins) - 1

    def _comp(self, seq):
        ins = self.ins
        for op, av in seq:
            if op in CHAR_OPS:
                self._emit(('char', charset(op, av, self.flags)))
            elif op is sc.SUBPATTERN:
                g, add, dele, p = av
                saved = self.flags
                if add or dele:
                    if (add | dele) & ~(re.IGNORECASE | re.DOTALL | re.MULTILINE):
                        raise Unsupported('inline flags')
                    self.flags = (self.flags | add) & ~dele
                if g and g in self.group_subst:
                    self._comp(self.group_subst[g])
                else:
                    if g:
                        self.groups[g] = p
                    self._comp(p)
                self.flags = saved
            elif op is sc.BRANCH:
                alts = av[1]
                jmps = []
                for k, alt in enumerate(alts):
                    if k < len(alts) - 1:
                        s = self._emit(None)
                        self._comp(alt)
                        jmps.append(self._emit(None))
                        ins[s] = ('split', s + 1, len(ins))
                    else:
                        self._comp(alt)
                for j in jmps:
                    ins[j] = ('jmp', len(ins))
            elif op in (sc.MAX_REPEAT, sc.MIN_REPEAT):
                lo, hi, p = av
                greedy = op is sc.MAX_REPEAT
                for _ in range(lo):
                    self._comp(p)
                if hi is sc.MAXREPEAT:
                    s = self._emit(None)
                    self._comp(p)
                    self._emit(('jmp', s))
                    out = len(ins)
                    ins[s] = ('split', s + 1, out) if greedy else ('split', out, s + 1)
                else:
                    if hi - lo > 64:
                        raise Unsupported('large bounded repeat')
                    splits = []
                    for _ in range(hi - lo):
                        splits.append(self._emit(None))
                        self._comp(p)
                    out = len(ins)
                    for s in splits:
                        ins[s] = ('split', s + 1, out) if greedy else ('split', out, s + 1)
            elif op is sc.AT:
                self._emit(('at', av))
            elif op is sc.GROUPREF:
                if av in self.group_subst:
                    self._comp(self.group_subst[av])
                elif av in self.groups:
                    self._comp(self.groups[av])
                else:
                    raise Unsupported('forward group reference')
            elif op in (sc.ASSERT, sc.ASSERT_NOT):
                direction, sub = av
                if direction < 0 and self.drop_lookbehind:
                    continue
                self._emit(('look', direction > 0, op is sc.ASSERT_NOT, sub))
            else:
                raise Unsupported(str(op))

    def has(self, kind):
        return any(i[0] == kind for i in self.ins)

    def charsets(self):
        return [i[1] for i in self.ins if i[0] == 'char']


def atoms_of(sets, base=ALL):
    """coarsest partition of `base` that refines every set of `sets`."""
    parts = [base]
    for s in set(sets):
        nxt = []
        for a in parts:
            i = a & s
            d = a & ~s
            if i:
                nxt.append(i)
            if d:
                nxt.append(d)
        parts = nxt
    return parts


# ---------------------------------------------------------------------------
# EDA / epsilon-cycle test (R16.1)

class Ambiguity:
    def __init__(self, kind, detail, pump=None, prefix=None):
        self.kind, self.detail, self.pump, self.prefix = kind, detail, pump, prefix

    def __repr__(self):
        return f'{self.kind}: {self.detail}' + (f' pump={self.pump!r} after prefix {self.prefix!r}' if self.pump else '')


def ambiguity(pattern, flags=LEXFLAGS, tree=None, want_degree=False):
    """Returns (findings, stats).  Assertions/anchors are epsilon (more paths:
    'no ambiguity' stays sound); a back-reference is a copy of its group."""
    prog = Prog(pattern, flags, tree=tree)
    ins = prog.ins
    n = len(ins)
    findings = []

    def eps_succ(pc):
        i = ins[pc]
        if i[0] == 'split':
            return [i[1], i[2]]
        if i[0] == 'jmp':
            return [i[1]]
        if i[0] in ('at', 'look'):
            return [pc + 1]
        return []

    # epsilon cycles
    color = {}
    cyc = []

    def dfs(v):
        color[v] = 1
        for w in eps_succ(v):
            if color.get(w) == 1:
                cyc.append((v, w))
            elif w not in color:
                dfs(w)
        color[v] = 2
    import sys
    sys.setrecursionlimit(max(10000, sys.getrecursionlimit()))
    for v in range(n):
        if v not in color:
            dfs(v)
    if cyc:
        findings.append(Ambiguity('eps-cycle', f'nullable body under an unbounded repeat (pc {cyc[0][0]}->{cyc[0][1]})'))
        return findings, {'states': n}

    # epsilon paths from pc to char/match instructions, counting distinct paths
    memo = {}

    def targets(pc):
        """list of (target_pc, path_id) with one entry per distinct eps path"""
        if pc in memo:
            return memo[pc]
        i = ins[pc]
        if i[0] in ('char', 'match'):
            r = [(pc, ())]
        else:
            r = []
            for k, w in enumerate(eps_succ(pc)):
                for t, pid in targets(w):
                    r.append((t, (k,) + pid))
        memo[pc] = r
        return r

    # anchor states: 0 and pc+1 for each char instr
    anchors = [0] + [pc + 1 for pc in range(n) if ins[pc][0] == 'char']
    trans = {}
    tid = 0
    for a in anchors:
        out = []
        for t, pid in targets(a):
            if ins[t][0] == 'char':
                out.append((ins[t][1], t + 1, tid))
                tid += 1
        trans[a] = out
    accepting = {a for a in anchors if any(ins[t][0] == 'match' for t, _ in targets(a))}
    # duplicate eps paths to the same char instr from one anchor = local ambiguity (a|a)
    # reachable / co-reachable trimming
    reach = {0}
    work = [0]
    while work:
        a = work.pop()
        for _, t, _ in trans[a]:
            if t not in reach:
                reach.add(t)
                work.append(t)
    rev = {}
    for a in reach:
        for _, t, _ in trans[a]:
            rev.setdefault(t, set()).add(a)
    co = set(x for x in accepting if x in reach)
    work = list(co)
    while work:
        a = work.pop()
        for p in rev.get(a, ()):
            if p not in co:
                co.add(p)
                work.append(p)
    useful = reach & co
    # self product
    nodes = [(p, q) for p in useful for q in useful]
    succ = {}
    for (p, q) in nodes:
        lst = []
        for cs1, t1, i1 in trans[p]:
            if t1 not in useful:
                continue
            for cs2, t2, i2 in trans[q]:
                if t2 not in useful:
                    continue
                c = cs1 & cs2
                if c:
                    lst.append(((t1, t2), i1 != i2, c))
        succ[(p, q)] = lst
    comp = _scc(nodes, lambda v: [w for w, _, _ in succ[v]])
    diag_comps = {comp[(p, p)] for p in useful}
    bad = None
    for v in nodes:
        if comp[v] not in diag_comps:
            continue
        for w, distinct, c in succ[v]:
            if distinct and comp[w] == comp[v]:
                bad = (v, w, c)
                break
        if bad:
            break
    stats = {'states': len(useful), 'product_nodes': len(nodes),
             'product_edges': sum(len(x) for x in succ.values())}
    if bad:
        v, w, c = bad
        q = next(p for p in useful if comp[(p, p)] == comp[v])
        inside = lambda x: comp[x] == comp[v]
        p1 = _path(succ, (q, q), v, inside)
        p2 = _path(succ, w, (q, q), inside)
        pump = ''.join(rep(x) for x in p1) + rep(c) + ''.join(rep(x) for x in p2)
        pre = _path_simple(trans, 0, q)
        findings.append(Ambiguity('EDA', f'state {q} has two distinct paths to itself on the same word '
                                  f'(product edge {v}->{w} uses two different transitions)',
                                  pump=pump, prefix=''.join(rep(x) for x in pre)))
    return findings, stats


def _scc(nodes, succf):
    index, low, comp = {}, {}, {}
    onst, st = set(), []
    counter = [0]
    ci = [0]
    for root in nodes:
        if root in index:
            continue
        work = [(root, iter(succf(root)))]
        index[root] = low[root] = counter[0]
        counter[0] += 1
        st.append(root)
        onst.add(root)
        while work:
            v, it = work[-1]
            adv = False
            for w in it:
                if w not in index:
                    index[w] = low[w] = counter[0]
                    counter[0] += 1
                    st.append(w)
                    onst.add(w)
                    work.append((w, iter(succf(w))))
                    adv = True
                    break
                elif w in onst:
                    low[v] = min(low[v], index[w])
            if adv:
                continue
            work.pop()
            if work:
                u = work[-1][0]
                low[u] = min(low[u], low[v])
            if low[v] == index[v]:
                while True:
                    w = st.pop()
                    onst.discard(w)
                    comp[w] = ci[0]
                    if w == v:
                        break
                ci[0] += 1
    return comp


def _path(succ, a, b, inside):
    """labels (bitsets) of a shortest path a->b inside the component."""
    if a == b:
        return []
    prev = {a: None}
    work = [a]
    while work:
        nxt = []
        for v in work:
            for w, _, c in succ[v]:
                if w not in prev and inside(w):
                    prev[w] = (v, c)
                    if w == b:
                        out = []
                        while prev[w] is not None:
                            v2, c2 = prev[w]
                            out.append(c2)
                            w = v2
                        return out[::-1]
                    nxt.append(w)
        work = nxt
    return []


def _path_simple(trans, a, b):
    if a == b:
        return []
    prev = {a: None}
    work = [a]
    while work:
        nxt = []
        for v in work:
            for c, w, _ in trans[v]:
                if w not in prev:
                    prev[w] = (v, c)
                    if w == b:
                        out = []
                        while prev[w] is not None:
                            v2, c2 = prev[w]
                            out.append(c2)
                            w = v2
                        return out[::-1]
                    nxt.append(w)
        work = nxt
    return []


# ---------------------------------------------------------------------------
# DFA kit (languages, priorities ignored)

class DFA:
    """Complete DFA over a fixed atom list. states 0..n-1, delta[s][atom_index]"""

    def __init__(self, atoms, delta, start, accept):
        self.atoms, self.delta, self.start, self.accept = atoms, delta, start, accept

    @staticmethod
    def from_pattern(pattern, atoms, flags=re.UNICODE):
        """pattern must be assertion-free.  `atoms` must refine its classes."""
        prog = Prog(pattern, flags)
        ins = prog.ins
        for i in ins:
            if i[0] in ('at', 'look'):
                raise Unsupported('assertion in specification pattern')

        def clo(pcs):
            out, seen, st = set(), set(), list(pcs)
            while st:
                pc = st.pop()
                if pc in seen:
                    continue
                seen.add(pc)
                i = ins[pc]
                if i[0] == 'split':
                    st += [i[1], i[2]]
                elif i[0] == 'jmp':
                    st.append(i[1])
                else:
                    out.add(pc)
            return frozenset(out)
        start = clo([0])
        ids = {start: 0}
        delta = []
        accept = set()
        work = [start]
        while work:
            s = work.pop()
            while len(delta) <= ids[s]:
                delta.append(None)
            row = []
            if any(ins[pc][0] == 'match' for pc in s):
                accept.add(ids[s])
            for a in atoms:
                t = clo([pc + 1 for pc in s if ins[pc][0] == 'char' and ins[pc][1] & a])
                # atoms must refine: either a subset of the class or disjoint
                if t not in ids:
                    ids[t] = len(ids)
                    work.append(t)
                row.append(ids[t])
            delta[ids[s]] = row
        return DFA(atoms, delta, 0, accept)

    def complement(self):
        return DFA(self.atoms, self.delta, self.start, set(range(len(self.delta))) - self.accept)

    def product(self, other, op):
        assert self.atoms == other.atoms
        ids = {(self.start, other.start): 0}
        delta, accept = [], set()
        work = [(self.start, other.start)]
        while work:
            s = work.pop()
            while len(delta) <= ids[s]:
                delta.append(None)
            if op(s[0] in self.accept, s[1] in other.accept):
                accept.add(ids[s])
            row = []
            for k in range(len(self.atoms)):
                t = (self.delta[s[0]][k], other.delta[s[1]][k])
                if t not in ids:
                    ids[t] = len(ids)
                    work.append(t)
                row.append(ids[t])
            delta[ids[s]] = row
        return DFA(self.atoms, delta, 0, accept)

    def intersect(self, o):
        return self.product(o, lambda a, b: a and b)

    def minus(self, o):
        return self.product(o, lambda a, b: a and not b)

    def live_states(self):
        """states from which an accepting state is reachable"""
        rev = {}
        for s, row in enumerate(self.delta):
            for t in row:
                rev.setdefault(t, set()).add(s)
        live = set(self.accept)
        work = list(live)
        while work:
            t = work.pop()
            for s in rev.get(t, ()):
                if s not in live:
                    live.add(s)
                    work.append(s)
        return live

    def is_empty(self):
        return self.start not in self.live_states()

    def witness(self):
        """a shortest accepted word (as string of representatives) or None"""
        prev = {self.start: None}
        work = [self.start]
        if self.start in self.accept:
            return ''
        while work:
            nxt = []
            for s in work:
                for k, t in enumerate(self.delta[s]):
                    if t not in prev:
                        prev[t] = (s, k)
                        if t in self.accept:
                            out = []
                            while prev[t] is not None:
                                s2, k2 = prev[t]
                                out.append(rep(self.atoms[k2]))
                                t = s2
                            return ''.join(reversed(out))
                        nxt.append(t)
            work = nxt
        return None

    def accepts(self, word):
        s = self.start
        for ch in word:
            b = bit(ch) if ch in _IDX else None
            k = next((k for k, a in enumerate(self.atoms) if b and a & b), None)
            if k is None:
                return False
            s = self.delta[s][k]
        return s in self.accept


# ---------------------------------------------------------------------------
# leftmost-first extent automaton (2.6e)

END = 'END'       # the text ends here
NLEND = 'NLEND'   # next char is \n and the text ends after it ($ holds here)


class Extent:
    """Ordered thread-list simulation of one rule (backtracking priority
    semantics = RE2's leftmost-first construction), explored symbolically.

    A configuration is (raw, prevw): `raw` the ordered tuple of program
    counters reached right after consuming the previous character, `prevw`
    whether that character was a word character (for \\b).  `closure` resolves
    epsilon edges in priority order given what comes next."""

    def __init__(self, prog):
        self.prog = prog
        self.ins = prog.ins
        for i in self.ins:
            if i[0] == 'look':
                raise Unsupported('look-around inside an extent automaton (resolve it by context first)')

    def closure(self, raw, prevw, nxt_word, at_end, dollar, at_begin=False):
        """nxt_word: next char is a word char (False at END); at_end: text ends
        here; dollar: `$` holds here (END or NLEND)"""
        out, seen = [], set()
        ins = self.ins

        def add(pc):
            if pc in seen:
                return
            seen.add(pc)
            i = ins[pc]
            k = i[0]
            if k == 'split':
                add(i[1])
                add(i[2])
            elif k == 'jmp':
                add(i[1])
            elif k == 'at':
                a = i[1]
                if a is sc.AT_END:
                    ok = dollar
                elif a is sc.AT_END_STRING:
                    ok = at_end
                elif a in (sc.AT_BEGINNING, sc.AT_BEGINNING_STRING):
                    ok = at_begin
                elif a is sc.AT_BOUNDARY:
                    ok = prevw != nxt_word
                elif a is sc.AT_NON_BOUNDARY:
                    ok = prevw == nxt_word
                else:
                    raise Unsupported(str(a))
                if ok:
                    add(pc + 1)
            else:
                out.append(pc)
        for pc in raw:
            add(pc)
        return out

    def cut(self, lst):
        """(matched_here, threads of higher priority than the match)"""
        for k, pc in enumerate(lst):
            if self.ins[pc][0] == 'match':
                return True, lst[:k]
        return False, lst

    def step(self, lst, atom):
        return tuple(pc + 1 for pc in lst if self.ins[pc][0] == 'char' and self.ins[pc][1] & atom)


def check_extent(rule_prog, spec_dfa, atoms, left_word=False, at_begin=True, right_ok=ALL,
                 allow_end=True, max_states=200000):
    """For every u in L(spec_dfa) and every right context (END, or a first
    character in `right_ok` followed by anything): the leftmost-first match
    of the rule on u.c ends exactly at |u|.

    Returns (violations, states_explored).  A violation = (kind, word)."""
    ex = Extent(rule_prog)
    W = word_set()
    NL = bit('\n')
    live = spec_dfa.live_states()
    viol = []
    seen = set()
    # configuration: (raw, prevw, specstate|None, phase, must_end, first)
    start = ((0,), left_word, spec_dfa.start, 0, False, True)
    work = [(start, '')]
    n = 0
    while work:
        cfg, w = work.pop()
        if cfg in seen:
            continue
        seen.add(cfg)
        n += 1
        if n > max_states:
            raise Unsupported('extent exploration too large')
        raw, prevw, ss, phase, must_end, first = cfg
        ab = at_begin and first
        in_spec_accept = phase == 0 and ss in spec_dfa.accept
        # --- the text ends here
        if allow_end or phase == 1:
            lst = ex.closure(raw, prevw, False, True, True, ab)
            m, _ = ex.cut(lst)
            if phase == 0 and in_spec_accept and not m:
                viol.append(('no match ends at the end of the lexeme (right context: end of text)', w))
            if phase == 1 and m:
                viol.append(('match extends beyond the lexeme', w))
            if phase == 0 and not in_spec_accept and m and False:
                pass
        if must_end:
            continue
        for a in atoms:
            r = rep(a)
            nw = bool(a & W)
            worlds = [(False, False)]
            if a & NL and rule_prog.has('at'):
                worlds.append((True, True))   # `$` holds: text ends after this \n
            for dollar, me in worlds:
                lst = ex.closure(raw, prevw, nw, False, dollar, ab)
                m, surv = ex.cut(lst)
                nraw = ex.step(surv, a)
                if phase == 0:
                    # option 1: `a` continues the lexeme
                    k = atoms.index(a)
                    s2 = spec_dfa.delta[ss][k]
                    if s2 in live:
                        # a match recorded strictly inside a lexeme is harmless only if a later
                        # (higher priority) match is recorded at the end -- checked at the boundary
                        work.append(((nraw, nw, s2, 0, me, False), w + r))
                    # option 2: the lexeme ended before `a` (a = first context character)
                    if in_spec_accept and (a & right_ok):
                        if not m:
                            viol.append((f'no match ends at the end of the lexeme (next char {r!r})', w))
                        else:
                            work.append(((nraw, nw, None, 1, me, False), w + '│' + r))
                else:
                    if m:
                        viol.append(('match extends beyond the lexeme', w))
                    elif nraw:
                        work.append(((nraw, nw, None, 1, me, False), w + r))
        if len(viol) > 5:
            break
    return viol, n


# ---------------------------------------------------------------------------
# finite normalised word sets of keyword-like rules

def enum_words(tree, limit=600):
    """Set of words the pattern can spell, normalised the way keyword text is
    compared: upper case, every whitespace run as one blank, anchors and
    look-arounds dropped, a digit run as '0'.  None if the language is not a
    small finite set under that normalisation."""
    def seq_words(seq):
        words = {''}
        for op, av in seq:
            w = item_words(op, av)
            if w is None:
                return None
            words = {a + b for a in words for b in w}
            if len(words) > limit:
                return None
        return words

    def is_space_item(op, av):
        return op is sc.IN and len(av) == 1 and av[0] == (sc.CATEGORY, sc.CATEGORY_SPACE)

    def is_digit_item(op, av):
        return op is sc.IN and len(av) == 1 and av[0] == (sc.CATEGORY, sc.CATEGORY_DIGIT)

    def item_words(op, av):
        if op is sc.LITERAL:
            return {chr(av).upper()}
        if op is sc.IN:
            if is_space_item(op, av):
                return {' '}
            if is_digit_item(op, av):
                return {'0'}
            chars = set()
            for o, a in av:
                if o is sc.LITERAL:
                    chars.add(chr(a).upper())
                elif o is sc.RANGE and a[1] - a[0] < 8:
                    chars |= {chr(c).upper() for c in range(a[0], a[1] + 1)}
                else:
                    return None
            return chars if len(chars) <= 16 else None
        if op is sc.BRANCH:
            out = set()
            for alt in av[1]:
                w = seq_words(alt)
                if w is None:
                    return None
                out |= w
            return out
        if op is sc.SUBPATTERN:
            return seq_words(av[3])
        if op in (sc.MAX_REPEAT, sc.MIN_REPEAT):
            lo, hi, p = av
            if len(p) == 1 and (is_space_item(*p[0]) or is_digit_item(*p[0])) and lo >= 1:
                return {' '} if is_space_item(*p[0]) else {'0'}
            if len(p) == 1 and is_space_item(*p[0]) and lo == 0:
                return {'', ' '}
            if hi is sc.MAXREPEAT or hi > 3:
                return None
            w = seq_words(p)
            if w is None:
                return None
            out = set()
            for k in range(lo, hi + 1):
                cur = {''}
                for _ in range(k):
                    cur = {a + b for a in cur for b in w}
                out |= cur
            return out
        if op in (sc.AT, sc.ASSERT, sc.ASSERT_NOT):
            return {''}
        return None
    return seq_words(tree)


def inner_separators(tree):
    """How words are separated inside a multi-word pattern: list of
    ('ws+', node) / ('single-ws', node) / ('literal-blank', node)"""
    out = []

    def rec(seq):
        for op, av in seq:
            if op is sc.LITERAL and chr(av) in ' \t':
                out.append('literal-blank')
            elif op is sc.IN and len(av) == 1 and av[0] == (sc.CATEGORY, sc.CATEGORY_SPACE):
                out.append('single-ws')
            elif op in (sc.MAX_REPEAT, sc.MIN_REPEAT):
                lo, hi, p = av
                if len(p) == 1 and p[0][0] is sc.IN and len(p[0][1]) == 1 and p[0][1][0] == (sc.CATEGORY, sc.CATEGORY_SPACE):
                    out.append('ws+' if (lo >= 1 and hi is sc.MAXREPEAT) else 'ws*' if hi is sc.MAXREPEAT else 'single-ws')
                else:
                    rec(p)
            elif op is sc.BRANCH:
                for a in av[1]:
                    rec(a)
            elif op is sc.SUBPATTERN:
                rec(av[3])
    rec(tree)
    return out


def check_never_matches(rule_prog, spec_dfa, atoms, right_ok=ALL, allow_end=True, left_word=False, max_states=200000):
    """For every u in L(spec) and every right context: the rule records NO match at any
    position of u.c (it cannot win at the opener).  Returns (violations, states)."""
    ex = Extent(rule_prog)
    W = word_set()
    NL = bit('\n')
    live = spec_dfa.live_states()
    viol, seen, n = [], set(), 0
    work = [(((0,), left_word, spec_dfa.start, 0, False, True), '')]
    while work:
        cfg, w = work.pop()
        if cfg in seen:
            continue
        seen.add(cfg)
        n += 1
        if n > max_states:
            raise Unsupported('exploration too large')
        raw, prevw, ss, phase, must_end, first = cfg
        acc = phase == 0 and ss in spec_dfa.accept
        if allow_end or phase == 1:
            if (acc or phase == 1):
                m, _ = ex.cut(ex.closure(raw, prevw, False, True, True, first))
                if m:
                    viol.append(('matches', w))
        if must_end:
            continue
        for a in atoms:
            r = rep(a)
            nw = bool(a & W)
            worlds = [(False, False)]
            if a & NL and rule_prog.has('at'):
                worlds.append((True, True))
            for dollar, me in worlds:
                lst = ex.closure(raw, prevw, nw, False, dollar, first)
                m, surv = ex.cut(lst)
                nraw = ex.step(surv, a)
                if phase == 0:
                    k = atoms.index(a)
                    s2 = spec_dfa.delta[ss][k]
                    if s2 in live:
                        if m:
                            # a match recorded inside a spec word: the rule matches a prefix -> it wins at the opener
                            viol.append(('matches a prefix', w))
                        elif nraw:
                            work.append(((nraw, nw, s2, 0, me, False), w + r))
                    if acc and (a & right_ok):
                        if m:
                            viol.append(('matches', w))
                        elif nraw:
                            work.append(((nraw, nw, None, 1, me, False), w + '│' + r))
                else:
                    if m:
                        viol.append(('matches', w))
                    elif nraw:
                        work.append(((nraw, nw, None, 1, me, False), w + r))
        if len(viol) > 3:
            break
    return viol, n



def canon_pattern(p):
    """identity of a table row for finding keys: the pattern with non-capturing groups written as plain groups, so that a
    rewrite that changes nothing but `(` <-> `(?:` keeps the key of a listed finding"""
    return p.replace('(?:', '(') if isinstance(p, str) else p
