"""Declarative tables recovered from the source (DESIGN 2.2): LEX, KW, OUT."""
import ast
import re

from . import rx
from .fold import TT, Marker, NotConst
from .model import AnalysisError


class LexRule:
    def __init__(self, index, line, pattern, action, action_src):
        self.index, self.line, self.pattern, self.action, self.action_src = index, line, pattern, action, action_src
        self._tree = None
        self._cre = None

    @property
    def tree(self):
        if self._tree is None:
            self._tree = rx.parse(self.pattern, rx.LEXFLAGS)
        return self._tree

    @property
    def cre(self):
        if self._cre is None:
            self._cre = re.compile(self.pattern, rx.LEXFLAGS)
        return self._cre

    @property
    def is_kw(self):
        return isinstance(self.action, Marker)

    def __repr__(self):
        return f'<rule {self.index} L{self.line} {self.pattern!r} -> {self.action_src}>'


class Tables:
    def __init__(self, ctx):
        self.ctx = ctx
        repo, folder = ctx.repo, ctx.folder
        self.kwmod = repo.mod('sqlparse.keywords')
        self.lexmod = repo.mod('sqlparse.lexer')
        self._lex()
        self._kw()

    # -- SQL_REGEX ---------------------------------------------------------
    def _lex(self):
        node = self.kwmod.assigns.get('SQL_REGEX')
        if node is None:
            raise AnalysisError('keywords.SQL_REGEX not found')
        if not isinstance(node, (ast.List, ast.Tuple)):
            raise AnalysisError('keywords.SQL_REGEX is no longer a list/tuple display')
        self.lex = []
        f = self.ctx.folder
        try:
            self.marker = f.module_value(self.kwmod, 'PROCESS_AS_KEYWORD')
        except NotConst:
            self.marker = None
        for i, elt in enumerate(node.elts):
            if not (isinstance(elt, (ast.Tuple, ast.List)) and len(elt.elts) == 2):
                raise AnalysisError(f'{self.kwmod.relpath}:{elt.lineno}: SQL_REGEX row {i} is not a pair')
            try:
                pat = f.eval(elt.elts[0], self.kwmod)
                act = f.eval(elt.elts[1], self.kwmod)
            except NotConst as e:
                raise AnalysisError(f'{self.kwmod.relpath}:{elt.lineno}: SQL_REGEX row {i} not statically evaluable ({e})')
            self.lex.append(LexRule(i, elt.lineno, pat, act, ast.unparse(elt.elts[1])))

    # -- keyword dictionaries, in registration order --------------------
    def _kw(self):
        repo, f = self.ctx.repo, self.ctx.folder
        lexcls = repo.cls('sqlparse.lexer.Lexer')
        di = lexcls.methods.get('default_initialization')
        if di is None:
            raise AnalysisError('Lexer.default_initialization not found')
        self.kw = []          # list of (name, dict)
        self.kw_calls = []
        self.regex_source = None
        for st in di.node.body:
            if isinstance(st, ast.Expr) and isinstance(st.value, ast.Call) and isinstance(st.value.func, ast.Attribute) \
                    and isinstance(st.value.func.value, ast.Name) and st.value.func.value.id == 'self':
                m = st.value.func.attr
                self.kw_calls.append((m, st))
                if m == 'add_keywords' and st.value.args:
                    try:
                        v = f.eval(st.value.args[0], self.lexmod)
                    except NotConst as e:
                        raise AnalysisError(f'{self.lexmod.relpath}:{st.lineno}: add_keywords argument not foldable ({e})')
                    if not isinstance(v, dict):
                        raise AnalysisError(f'{self.lexmod.relpath}:{st.lineno}: add_keywords argument is not a dict')
                    self.kw.append((ast.unparse(st.value.args[0]), v))
                elif m == 'set_SQL_REGEX' and st.value.args:
                    self.regex_source = ast.unparse(st.value.args[0])
        # all module-level dicts of keywords.py
        self.all_dicts = {}
        for name, node in self.kwmod.assigns.items():
            if isinstance(node, ast.Dict):
                try:
                    self.all_dicts[name] = f.eval(node, self.kwmod)
                except NotConst as e:
                    raise AnalysisError(f'keywords.{name} not statically evaluable ({e})')

    def lookup(self, word):
        """the type is_keyword gives (first dictionary in registration order), else Name"""
        w = word.upper()
        for _, d in self.kw:
            if w in d:
                return d[w]
        return TT(('Name',))

    def lex_one(self, text, pos=0):
        """Table agreement: which row of LEX is the first to match the constant
        `text` at `pos`, with which extent and type.  Evaluates regex constants
        from the source on a string constant with the stdlib engine; sqlparse
        itself is not executed."""
        for r in self.lex:
            m = r.cre.match(text, pos)
            if m:
                if m.end() == pos:
                    continue_ = False
                val = m.group()
                ttype = self.lookup(val) if r.is_kw else r.action
                return r, m.end(), ttype
        return None, pos + 1, TT(('Error',))

    def lex_all(self, text):
        out, pos = [], 0
        while pos < len(text):
            r, end, tt = self.lex_one(text, pos)
            if end <= pos:
                end = pos + 1
            out.append((tt, text[pos:end], r))
            pos = end
        return out


def get_tables(ctx):
    return ctx.shared('tables', lambda: Tables(ctx))
