"""Declarative tables recovered from the source (DESIGN 2.2): LEX, KW, OUT."""
import ast
import re

from . import rx
from .fold import TT, Marker, NotConst
from .model import AnalysisError


class LexRule:
    def __init__(self, index, line, pattern, action, action_src):
        self.index, self.line, self.pattern, self.action, self.action_src = index, line, pattern, action, action_src
        self._tree = None
        self._cre = None

    @property
    def tree(self):
        if self._tree is None:
            self._tree = rx.parse(self.pattern, rx.LEXFLAGS)
        return self._tree

    @property
    def cre(self):
        if self._cre is None:
            self._cre = re.compile(self.pattern, rx.LEXFLAGS)
        return self._cre

    @property
    def is_kw(self):
        return isinstance(self.action, Marker)

    def __repr__(self):
        return f'<rule {self.index} L{self.line} {self.pattern!r} -> {self.action_src}>'


class _NotADisplay(Exception):
    pass


class Tables:
    def __init__(self, ctx):
        self.ctx = ctx
        repo, folder = ctx.repo, ctx.folder
        self.kwmod = repo.mod('sqlparse.keywords')
        self.lexmod = repo.mod('sqlparse.lexer')
        self._lex()
        self._kw()

    # -- SQL_REGEX ---------------------------------------------------------
    def _lex(self):
        node = self.kwmod.assigns.get('SQL_REGEX')
        if node is None:
            raise AnalysisError('keywords.SQL_REGEX not found')
        def rows(n, depth=0):
            """the row displays of a table written as a display, a concatenation of displays, or names of such"""
            if isinstance(n, (ast.List, ast.Tuple)):
                out = []
                for e in n.elts:
                    if isinstance(e, ast.Starred):
                        out += rows(e.value, depth + 1)
                    else:
                        out.append(e)
                return out
            if isinstance(n, ast.BinOp) and isinstance(n.op, ast.Add):
                return rows(n.left, depth + 1) + rows(n.right, depth + 1)
            if isinstance(n, ast.Name) and n.id in self.kwmod.assigns and depth < 6:
                return rows(self.kwmod.assigns[n.id], depth + 1)
            if isinstance(n, ast.Call) and isinstance(n.func, ast.Name) and n.func.id in ('list', 'tuple') and len(n.args) == 1:
                return rows(n.args[0], depth + 1)
            raise AnalysisError('keywords.SQL_REGEX is no longer a list/tuple display (or a concatenation of displays)')
        node = ast.List(elts=rows(node), ctx=ast.Load())
        self.lex = []
        f = self.ctx.folder
        try:
            self.marker = f.module_value(self.kwmod, 'PROCESS_AS_KEYWORD')
        except NotConst:
            self.marker = None
        for i, elt in enumerate(node.elts):
            if not (isinstance(elt, (ast.Tuple, ast.List)) and len(elt.elts) == 2):
                raise AnalysisError(f'{self.kwmod.relpath}:{elt.lineno}: SQL_REGEX row {i} is not a pair')
            try:
                pat = f.eval(elt.elts[0], self.kwmod)
                act = f.eval(elt.elts[1], self.kwmod)
            except NotConst as e:
                raise AnalysisError(f'{self.kwmod.relpath}:{elt.lineno}: SQL_REGEX row {i} not statically evaluable ({e})')
            self.lex.append(LexRule(i, elt.lineno, pat, act, ast.unparse(elt.elts[1])))

    # -- keyword dictionaries, in registration order --------------------
    def _kw(self):
        repo, f = self.ctx.repo, self.ctx.folder
        lexcls = repo.cls('sqlparse.lexer.Lexer')
        di = lexcls.methods.get('default_initialization')
        if di is None:
            raise AnalysisError('Lexer.default_initialization not found')
        self.kw = []          # list of (name, dict)
        self.kw_calls = []
        self.regex_source = None
        self.kw_alias = None      # (lineno, text) when self._keywords is bound to a non-fresh object

        def add(argnode, lineno):
            try:
                v = f.eval(argnode, self.lexmod)
            except NotConst as e:
                raise AnalysisError(f'{self.lexmod.relpath}:{lineno}: add_keywords argument not foldable ({e})')
            if not isinstance(v, dict):
                raise AnalysisError(f'{self.lexmod.relpath}:{lineno}: add_keywords argument is not a dict')
            self.kw.append((ast.unparse(argnode), v))

        def elements(listnode, lineno):
            """the dictionaries of a list/tuple expression, with their names: [(name, dict)]"""
            n, mod = listnode, self.lexmod
            # follow a module constant to its defining display so that the entries keep their names
            for _ in range(4):
                if isinstance(n, ast.Attribute) and isinstance(n.value, ast.Name) and n.value.id in mod.imports \
                        and mod.imports[n.value.id][0] == 'module':
                    m2 = repo.modules.get(mod.imports[n.value.id][1])
                    if m2 is not None and n.attr in m2.assigns:
                        n, mod = m2.assigns[n.attr], m2
                        continue
                if isinstance(n, ast.Name) and n.id in mod.assigns:
                    n = mod.assigns[n.id]
                    continue
                break
            if isinstance(n, ast.Call) and isinstance(n.func, ast.Name) and n.func.id in ('list', 'tuple') and len(n.args) == 1:
                return elements(n.args[0], lineno) if mod is self.lexmod else elements_in(n.args[0], mod, lineno)
            return elements_in(n, mod, lineno)

        def elements_in(n, mod, lineno):
            if isinstance(n, (ast.List, ast.Tuple)):
                out = []
                for e in n.elts:
                    try:
                        v = f.eval(e, mod)
                    except NotConst as ex:
                        raise AnalysisError(f'{mod.relpath}:{e.lineno}: keyword dictionary list entry not foldable ({ex})')
                    if not isinstance(v, dict):
                        raise AnalysisError(f'{mod.relpath}:{e.lineno}: keyword dictionary list entry is not a dict')
                    out.append((ast.unparse(e), v))
                return out
            raise _NotADisplay(f'{self.lexmod.relpath}:{lineno}: keyword dictionary list `{ast.unparse(n)[:60]}` is not a display of dictionaries')

        def fresh(v):
            return isinstance(v, (ast.List, ast.ListComp)) or (isinstance(v, ast.Call) and isinstance(v.func, ast.Name) and v.func.id == 'list') \
                or (isinstance(v, ast.BinOp) and isinstance(v.op, ast.Add) and (fresh(v.left) or fresh(v.right))) \
                or (isinstance(v, ast.Subscript) and isinstance(v.slice, ast.Slice)) \
                or (isinstance(v, ast.Call) and isinstance(v.func, ast.Attribute) and v.func.attr == 'copy')

        def is_self_call(st, names):
            return isinstance(st, ast.Expr) and isinstance(st.value, ast.Call) and isinstance(st.value.func, ast.Attribute) \
                and isinstance(st.value.func.value, ast.Name) and st.value.func.value.id == 'self' and st.value.func.attr in names
        try:
            self._kw_walk(di, add, elements, fresh, is_self_call)
        except _NotADisplay as e:
            # the list is built somewhere else (a helper, a cached tuple): take what interpreting default_initialization() leaves in
            # self._keywords; the entries get the names of the module-level dictionaries they are equal to
            from .rules_lexer import default_lexer
            o, why = default_lexer(self.ctx)
            kws = getattr(o, '_keywords', None) if o is not None else None
            if not isinstance(kws, list) or not all(isinstance(d, dict) for d in kws):
                raise AnalysisError(f'{e} (and default_initialization is not evaluable: {why or "no list of dictionaries in self._keywords"})')
            named = {}
            for name, node in self.kwmod.assigns.items():
                if isinstance(node, ast.Dict):
                    try:
                        named[name] = f.eval(node, self.kwmod)
                    except NotConst:
                        pass
            self.kw = [(next((f'keywords.{k}' for k, v in named.items() if v == d), f'<dictionary #{i}>'), d) for i, d in enumerate(kws)]
        # all module-level dicts of keywords.py
        self.all_dicts = {}
        for name, node in self.kwmod.assigns.items():
            if isinstance(node, ast.Dict):
                try:
                    self.all_dicts[name] = f.eval(node, self.kwmod)
                except NotConst as e:
                    raise AnalysisError(f'keywords.{name} not statically evaluable ({e})')

    def _kw_walk(self, di, add, elements, fresh, is_self_call):
        for st in di.node.body:
            if isinstance(st, ast.Expr) and isinstance(st.value, ast.Call) and isinstance(st.value.func, ast.Attribute) \
                    and isinstance(st.value.func.value, ast.Name) and st.value.func.value.id == 'self':
                m = st.value.func.attr
                self.kw_calls.append((m, st))
                if m == 'add_keywords' and st.value.args:
                    add(st.value.args[0], st.lineno)
                elif m == 'set_SQL_REGEX' and st.value.args:
                    self.regex_source = ast.unparse(st.value.args[0])
            elif isinstance(st, ast.For) and isinstance(st.target, ast.Name) and len(st.body) == 1 and is_self_call(st.body[0], ('add_keywords',)) \
                    and st.body[0].value.args and isinstance(st.body[0].value.args[0], ast.Name) and st.body[0].value.args[0].id == st.target.id:
                # for d in <list of dictionaries>: self.add_keywords(d)
                self.kw_calls.append(('add_keywords', st))
                self.kw.extend(elements(st.iter, st.lineno))
            elif isinstance(st, ast.Assign) and len(st.targets) == 1 and isinstance(st.targets[0], ast.Attribute) \
                    and isinstance(st.targets[0].value, ast.Name) and st.targets[0].value.id == 'self' and st.targets[0].attr == '_keywords':
                self.kw_calls.append(('_keywords=', st))
                self.kw = elements(st.value, st.lineno)
                if not fresh(st.value):
                    self.kw_alias = (st.lineno, ast.unparse(st.value))
            elif isinstance(st, ast.Expr) and isinstance(st.value, ast.Call) and isinstance(st.value.func, ast.Attribute) \
                    and st.value.func.attr in ('extend', 'append') and ast.unparse(st.value.func.value) == 'self._keywords' and st.value.args:
                self.kw_calls.append(('add_keywords', st))
                if st.value.func.attr == 'append':
                    add(st.value.args[0], st.lineno)
                else:
                    self.kw.extend(elements(st.value.args[0], st.lineno))

    def lookup(self, word):
        """the type is_keyword gives (first dictionary in registration order), else Name"""
        w = word.upper()
        for _, d in self.kw:
            if w in d:
                return d[w]
        return TT(('Name',))

    def lex_one(self, text, pos=0):
        """Table agreement: which row of LEX is the first to match the constant
        `text` at `pos`, with which extent and type.  Evaluates regex constants
        from the source on a string constant with the stdlib engine; sqlparse
        itself is not executed."""
        for r in self.lex:
            m = r.cre.match(text, pos)
            if m:
                if m.end() == pos:
                    continue_ = False
                val = m.group()
                ttype = self.lookup(val) if r.is_kw else r.action
                return r, m.end(), ttype
        return None, pos + 1, TT(('Error',))

    def lex_all(self, text):
        out, pos = [], 0
        while pos < len(text):
            r, end, tt = self.lex_one(text, pos)
            if end <= pos:
                end = pos + 1
            out.append((tt, text[pos:end], r))
            pos = end
        return out


def get_tables(ctx):
    return ctx.shared('tables', lambda: Tables(ctx))
