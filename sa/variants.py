"""Variant liveness (thorough tier, DESIGN 1): each variant is an edit of one source file
that breaks the property (kind 'bad': the named rule must fire) or is behaviour-preserving
(kind 'ok': the check must stay silent).  Variants are applied to an in-memory overlay of
/repo -- no scratch copy on disk.  A variant whose anchor text no longer occurs exactly once
is reported as skipped and never changes the exit code."""
import concurrent.futures as cf
import importlib
import os

from .model import AnalysisError, Repo
from . import report

K = 'sqlparse/keywords.py'
L = 'sqlparse/lexer.py'
S = 'sqlparse/sql.py'
G = 'sqlparse/engine/grouping.py'
SP = 'sqlparse/engine/statement_splitter.py'
FS = 'sqlparse/engine/filter_stack.py'
I = 'sqlparse/__init__.py'
U = 'sqlparse/utils.py'
FO = 'sqlparse/filters/others.py'
FT = 'sqlparse/filters/tokens.py'
FR = 'sqlparse/filters/reindent.py'
FA = 'sqlparse/filters/aligned_indent.py'
FM = 'sqlparse/formatter.py'
C = 'sqlparse/cli.py'
T = 'sqlparse/tokens.py'


def V(vid, prop, kind, rule, file, old, new, note=''):
    return dict(id=vid, prop=prop, kind=kind, rule=rule, file=file, old=old, new=new, note=note)


VARIANTS = [
    # ---- C01
    V('c01-ws-star', 'C01', 'bad', 'R1.2', K, r"(r'\s+?', tokens.Whitespace)", r"(r'\s*?', tokens.Whitespace)", 'zero-width whitespace rule'),
    V('c01-lookahead-row', 'C01', 'bad', 'R1.2', K, "    (r':=', tokens.Assignment),", "    (r'(?=;)', tokens.Punctuation),\n    (r':=', tokens.Assignment),"),
    V('c01-skip-count', 'C01', 'bad', 'R1.4', L, 'consume(iterable, m.end() - pos - 1)', 'consume(iterable, m.end() - pos)'),
    V('c01-group1', 'C01', 'bad', 'R1.4', L, 'yield action, m.group()', 'yield action, m.group(1)'),
    V('c01-search', 'C01', 'bad', 'R1.6', L, '(re.compile(rx, FLAGS).match, tt)', '(re.compile(rx, FLAGS).search, tt)'),
    V('c01-expandtabs', 'C01', 'bad', 'R1.8', L, "        if isinstance(text, str):\n            pass", "        if isinstance(text, str):\n            text = text.expandtabs()"),
    V('c01-kwdict-value', 'C01', 'bad', 'R1.5', L, 'return kwdict[val], value', 'return kwdict[val], val'),
    V('c01-no-else', 'C01', 'bad', 'R1.4', L, "                break\n            else:\n                yield tokens.Error, char", "                break"),
    V('c01-string-action', 'C01', 'bad', 'R1.3', K, r"(r'\?', tokens.Name.Placeholder)", r"(r'\?', 'placeholder')"),
    V('c01-ok-rename', 'C01', 'ok', '', L, None, None, 'rename iterable -> it (whole file)'),
    V('c01-ok-local-value', 'C01', 'ok', '', L, 'yield action, m.group()', 'yield action, m.group(0)'),
    V('c01-ok-reorder-rows', 'C01', 'ok', '', K, "    (r':=', tokens.Assignment),\n    (r'::', tokens.Punctuation),", "    (r'::', tokens.Punctuation),\n    (r':=', tokens.Assignment),"),
    # ---- C02
    V('c02-del-slice', 'C02', 'bad', 'R2.6', S, 'del self.tokens[start_idx + 1:end_idx]', 'del self.tokens[start_idx + 1:end_idx + 1]'),
    V('c02-skip-error', 'C02', 'bad', 'R2.1', SP, "            # Change current split level (increase, decrease or remain equal)", "            if ttype in T.Error:\n                continue\n            # Change current split level (increase, decrease or remain equal)"),
    V('c02-reset-clear', 'C02', 'bad', 'R2.2', SP, '        self.tokens = []', '        self.tokens.clear()'),
    V('c02-flush-any', 'C02', 'bad', 'R2.3', SP, 'if self.tokens and not all(t.is_whitespace for t in self.tokens):', 'if self.tokens and not any(t.is_whitespace for t in self.tokens):'),
    V('c02-join-blank', 'C02', 'bad', 'R2.4', S, "return ''.join(token.value for token in self.flatten())", "return ' '.join(token.value for token in self.flatten())"),
    V('c02-pass-pops', 'C02', 'bad', 'R2.5', G, "def group_values(tlist):\n", "def group_values(tlist):\n    tlist.tokens.pop() if tlist.tokens and tlist.tokens[-1].is_whitespace else None\n"),
    V('c02-token-strip', 'C02', 'bad', 'R2.4', S, '        value = str(value)\n        self.value = value', '        value = str(value).strip()\n        self.value = value'),
    V('c02-parse-filter', 'C02', 'bad', 'R2.7', I, '    stack.enable_grouping()\n    return stack.run(stream, encoding)', '    stack.enable_grouping()\n    stack.stmtprocess.append(filters.StripWhitespaceFilter())\n    return stack.run(stream, encoding)'),
    V('c02-ok-extract', 'C02', 'ok', '', S, '        end_idx = end + include_end', '        end_idx = end + 1 if include_end else end', 'equivalent rewrite is not linear: must not raise an alarm... (skipped if undetermined)'),
    V('c02-ok-new-pass', 'C02', 'ok', '', G, "def group_values(tlist):\n", "def group_noop(tlist):\n    tidx, token = tlist.token_next_by(m=(T.Keyword, 'NOOP'))\n    if token:\n        tlist.group_tokens(sql.TokenList, tidx, tidx)\n\n\ndef group_values(tlist):\n"),
    # ---- C03
    V('c03-no-child-parent', 'C03', 'bad', 'R3.2', S, '        for token in subtokens:\n            token.parent = grp\n', ''),
    V('c03-no-value-refresh', 'C03', 'bad', 'R3.3', S, '            grp.value = str(start)\n', ''),
    V('c03-offset-plus1', 'C03', 'bad', 'R3.4', G, '                tidx_offset += to_idx - from_idx\n', '                tidx_offset += to_idx - from_idx + 1\n'),
    V('c03-retype-keyword', 'C03', 'bad', 'R3.1b', G, 'tlist[tidx].ttype = T.Operator', 'tlist[tidx].ttype = T.Keyword'),
    V('c03-order-no-resume', 'C03', 'bad', 'R3.4b', G, '            tlist.group_tokens(sql.Identifier, pidx, tidx)\n            tidx = pidx\n', '            tlist.group_tokens(sql.Identifier, pidx, tidx)\n'),
    V('c03-accessor-ctor', 'C03', 'bad', 'R3.6', S, "        _, token = self.token_next_by(t=T.Wildcard)\n        return token is not None", "        _, token = self.token_next_by(t=T.Wildcard)\n        return token is not None or Identifier(self.tokens).get_name() == '*'"),
    V('c03-reversed-bounds', 'C03', 'bad', 'R3.5', G, '            tlist.group_tokens(sql.Over, tidx, nidx)', '            tlist.group_tokens(sql.Over, nidx, tidx)'),
    V('c03-ok-rename', 'C03', 'ok', '', G, None, None, 'rename tidx_offset -> shift (whole file)'),
    # ---- C04
    V('c04-split-preprocess', 'C04', 'bad', 'R4.1', I, '    stack = engine.FilterStack(strip_semicolon=strip_semicolon)\n', '    stack = engine.FilterStack(strip_semicolon=strip_semicolon)\n    stack.preprocess.append(filters.KeywordCaseFilter())\n'),
    V('c04-split-only-ungrouped', 'C04', 'bad', 'R4.2', FS, '            stream = StatementSplitter().process(stream)\n', '            if not self._grouping:\n                stream = StatementSplitter().process(stream)\n'),
    V('c04-strip-semicolon-char', 'C04', 'bad', 'R4.1', I, 'return [str(stmt).strip() for stmt in stack.run(sql, encoding)]', "return [str(stmt).strip(';') for stmt in stack.run(sql, encoding)]"),
    V('c04-dcl', 'C04', 'ok', None, L, '        with cls._lock:\n            if cls._default_instance is None:', '        if cls._default_instance is None:\n          with cls._lock:\n            if cls._default_instance is None:', 'double-checked locking is safe once the instance is published after initialisation (repo fix 0ab13df)'),
    V('c04-dcl-early-publish', 'C04', 'bad', 'R4.6', L, "        with cls._lock:\n            if cls._default_instance is None:\n                instance = cls()\n                instance.default_initialization()\n                cls._default_instance = instance", "        if cls._default_instance is None:\n            with cls._lock:\n                if cls._default_instance is None:\n                    cls._default_instance = cls()\n                    cls._default_instance.default_initialization()", 'unlocked fast path + publication before initialisation'),
    V('c15-early-publish', 'C15', 'bad', 'R15.7', L, "                instance = cls()\n                instance.default_initialization()\n                cls._default_instance = instance", "                cls._default_instance = cls()\n                cls._default_instance.default_initialization()", 'the defect fixed by 0ab13df: a failed first call leaves an empty lexer behind'),
    V('c04-ok-rename', 'C04', 'ok', '', I, '    stack = engine.FilterStack(strip_semicolon=strip_semicolon)\n    return [str(stmt).strip() for stmt in stack.run(sql, encoding)]', '    fstack = engine.FilterStack(strip_semicolon=strip_semicolon)\n    return [str(stmt).strip() for stmt in fstack.run(sql, encoding)]'),
    # ---- C05
    V('c05-begin-outside-create', 'C05', 'bad', 'R5.3', SP, "            self._begin_depth += 1\n            if self._is_create:\n                # FIXME(andi): This makes no sense.  ## this comment neither\n                return 1\n            return 0", "            self._begin_depth += 1\n            return 1"),
    V('c05-loop-opener', 'C05', 'bad', 'R5.3', SP, "        # Default\n        return 0", "        if unified == 'LOOP':\n            return 1\n\n        # Default\n        return 0"),
    V('c05-value-count', 'C05', 'bad', 'R5.2', SP, "        elif ttype not in T.Keyword:  # if normal token return\n            return 0", "        elif value.count(';') > 1:\n            return -1\n        elif ttype not in T.Keyword:  # if normal token return\n            return 0"),
    V('c05-no-level-test', 'C05', 'bad', 'R5.4', SP, "if (self.level <= 0 and ttype is T.Punctuation and value == ';') \\", "if (ttype is T.Punctuation and value == ';') \\"),
    V('c05-lazy-string', 'C05', 'bad', 'R5.5', K, r'''(r"'(''|\\'|[^'])*'", tokens.String.Single)''', r'''(r"'(''|\\'|[^'])*?'", tokens.String.Single)'''),
    V('c05-greedy-comment', 'C05', 'bad', 'R5.5', K, r"(r'/\*[\s\S]*?\*/', tokens.Comment.Multiline)", r"(r'/\*[\s\S]*\*/', tokens.Comment.Multiline)"),
    V('c05-ok-string-rewrite', 'C05', 'ok', '', K, r'''(r"'(''|\\'|[^'])*'", tokens.String.Single)''', r'''(r"'(?:''|\\'|[^'])*'", tokens.String.Single)'''),
    # ---- C06
    V('c06-pop-unguarded', 'C06', 'bad', 'R6.1', FO, '        while tlist.tokens[1].is_whitespace:\n            tlist.tokens.pop(1)', '        tlist.tokens.pop(1)'),
    V('c06-blank-comments', 'C06', 'bad', 'R6.1', FO, "            if token.is_whitespace:\n                token.value = '' if last_was_ws else ' '", "            if token.is_whitespace or token.ttype in T.Comment:\n                token.value = '' if last_was_ws else ' '"),
    V('c06-nl-punct', 'C06', 'bad', 'R6.1', FR, "        return sql.Token(\n            T.Whitespace,\n            self.n + self.char * max(0, self.leading_ws + offset))", "        return sql.Token(\n            T.Punctuation,\n            ';' + self.n + self.char * max(0, self.leading_ws + offset))"),
    V('c06-user-indent-char', 'C06', 'bad', 'R6.1', FM, "        options['indent_char'] = ' '", "        options['indent_char'] = options.get('indent_char', ' ')"),
    V('c06-delete-comment-prev', 'C06', 'bad', 'R6.1', FR, "            if prev_ and prev_.is_whitespace:\n                del tlist.tokens[pidx]\n                tidx -= 1\n\n            if not (uprev", "            if prev_ and (prev_.is_whitespace or prev_.ttype in T.Comment):\n                del tlist.tokens[pidx]\n                tidx -= 1\n\n            if not (uprev"),
    V('c06-order', 'C06', 'bad', 'R6.3', FM, "    if options.get('use_space_around_operators', False):\n        stack.enable_grouping()\n        stack.stmtprocess.append(filters.SpacesAroundOperatorsFilter())\n\n", ""),
    V('c06-handler-rename', 'C06', 'bad', 'R6.4', FR, 'def _process_identifierlist(self, tlist):', 'def _process_identifier_list(self, tlist):'),
    V('c06-ok-is-whitespace-var', 'C06', 'ok', '', FO, "            if token.is_whitespace:\n                token.value = '' if last_was_ws else ' '", "            if token.is_whitespace:\n                token.value = ' ' if not last_was_ws else ''", 'equivalent rewrite of the blanking rule'),
    # ---- C07
    V('c07-no-first-guard', 'C07', 'bad', 'R7.3', FR, "        if first is None:\n            return\n", ""),
    V('c07-valid-next-none', 'C07', 'bad', 'R7.3', G, "        return token is not None and token.match(*sql.TypedLiteral.M_CLOSE)", "        return token.match(*sql.TypedLiteral.M_CLOSE)"),
    V('c07-int-valueerror-only', 'C07', 'bad', 'R7.2', FM, "        indent_width = int(indent_width)\n    except (TypeError, ValueError, OverflowError):", "        indent_width = int(indent_width)\n    except ValueError:"),
    V('c07-no-wrap-validation', 'C07', 'bad', 'R7.2', FM, "    try:\n        wrap_after = int(wrap_after)\n    except (TypeError, ValueError, OverflowError):\n        raise SQLParseError('wrap_after requires an integer')\n    if wrap_after < 0:\n        raise SQLParseError('wrap_after requires a positive integer')\n", ""),
    V('c07-raise-valueerror', 'C07', 'bad', 'R7.1', FO, "    def _stripws_parenthesis(self, tlist):\n", "    def _stripws_parenthesis(self, tlist):\n        if len(tlist.tokens) < 2:\n            raise ValueError('unbalanced parenthesis')\n"),
    V('c07-set-literal', 'C07', 'bad', 'R7.2', FM, "if strip_comments not in [True, False]:", "if strip_comments not in {True, False}:"),
    V('c07-get-window-old', 'C07', 'bad', 'R7.3', S, "        _, over_clause = self.token_next_by(i=Over)\n        if over_clause is None:\n            return None\n        return over_clause.tokens[-1]", "        over_clause = self.token_next_by(i=Over)\n        if not over_clause:\n            return None\n        return over_clause[1].tokens[-1]", 'the defect fixed by cc8c9bb'),
    V('c07-truncate-char-old', 'C07', 'bad', 'R7.2', FM, "        truncate_char = options.get('truncate_char', '[...]')\n        if not isinstance(truncate_char, str):\n            raise SQLParseError('Invalid value for truncate_char: '\n                                '{!r}'.format(truncate_char))\n        options['truncate_char'] = truncate_char", "        options['truncate_char'] = options.get('truncate_char', '[...]')", 'the defect fixed by 57b4c88'),
    V('c07-new-subscript', 'C07', 'bad', 'R7.4', FO, "    def _stripws_identifierlist(self, tlist):\n", "    def _stripws_identifierlist(self, tlist):\n        first = tlist.tokens[3]\n"),
    V('c07-unbound', 'C07', 'bad', 'R7.5', FR, "        adjusted_offset = 0\n            if (self.wrap_after > 0", "        if self.wrap_after:\n                adjusted_offset = 0\n            if (self.wrap_after > 0"),
    V('c07-ok-not-token', 'C07', 'ok', '', FR, "        if first is None:\n            return\n", "        if not first:\n            return\n"),
    V('c07-ok-reorder-validation', 'C07', 'ok', '', FM, "    comma_first = options.get('comma_first', False)\n    if comma_first not in [True, False]:\n        raise SQLParseError('comma_first requires a boolean value')\n    options['comma_first'] = comma_first\n\n    compact = options.get('compact', False)\n    if compact not in [True, False]:\n        raise SQLParseError('compact requires a boolean value')\n    options['compact'] = compact\n", "    compact = options.get('compact', False)\n    if compact not in [True, False]:\n        raise SQLParseError('compact requires a boolean value')\n    options['compact'] = compact\n\n    comma_first = options.get('comma_first', False)\n    if comma_first not in [True, False]:\n        raise SQLParseError('comma_first requires a boolean value')\n    options['comma_first'] = comma_first\n"),
    # ---- C08
    V('c08-name-containment', 'C08', 'bad', 'R8.2', FT, "    ttype = T.Name, T.String.Symbol\n", "    ttype = T.Name\n"),
    V('c08-upper-outside', 'C08', 'bad', 'R8.1', FT, "            if ttype in self.ttype:\n                value = self.convert(value)\n            yield ttype, value", "            if ttype in self.ttype:\n                value = self.convert(value)\n            value = value.upper()\n            yield ttype, value"),
    V('c08-width-plus1', 'C08', 'bad', 'R8.8', FT, "                    if m.end() > self.width:", "                    if m.end() > self.width + 1:"),
    V('c08-truncate-plain-slice', 'C08', 'bad', 'R8.8', FT, "value = ''.join((\"'\", inner[:end], self.char, \"'\"))", "value = ''.join((\"'\", inner[:self.width], self.char, \"'\"))", 'the defect fixed by 407de6f: the cut can fall inside an escaped quote'),
    V('c08-truncate-two-quotes', 'C08', 'bad', 'R8.8', FT, "            inner = value[1:-1]\n", "            inner = value[2:-2] if value[:2] == \"''\" else value[1:-1]\n", 'the other half of 407de6f'),
    V('c08-truncate-while-form', 'C08', 'ok', None, FT, "                end = 0\n                for m in re.finditer(r\"''|\\\\'|[^']\", inner):\n                    if m.end() > self.width:\n                        break\n                    end = m.end()\n", "                ends = [m.end() for m in re.finditer(r\"''|\\\\'|[^']\", inner)]\n                end = max([e for e in ends if e <= self.width], default=0)\n", 'the same cut computed with a comprehension'),
    V('c08-no-separator', 'C08', 'bad', 'R8.3', FO, "                if prev_ is not None and not prev_.match(T.Punctuation, '('):\n                    tlist.tokens.insert(tidx, _get_insert_token(token))\n                else:", "                if True:"),
    V('c08-no-resume-fix', 'C08', 'bad', 'R8.6', FO, "                    tidx -= 1\n                tlist.tokens.remove(token)", "                    pass\n                tlist.tokens.remove(token)", 'the defect fixed by 919bddc: the second of two adjacent comments survives'),
    V('c08-hint-direct-children', 'C08', 'bad', 'R8.6', FO, "if any(t.ttype in sql_hints for t in token.flatten()):", "if any(t.ttype in sql_hints for t in token.tokens):", 'the other half of 919bddc: a nested hint is lost'),
    V('c10-stripws-no-border-pass', 'C10', 'bad', 'R10.9', FO, "                if token.is_whitespace and last_was_ws:\n                    token.value = ''\n                elif token.is_keyword", "                if token.is_keyword", 'the defect fixed by 05f5255'),
    V('c10-stripws-first-child-blanked', 'C10', 'bad', 'R10.9', FO, "            if token.is_whitespace:\n                token.value = '' if last_was_ws else ' '\n            last_was_ws = token.is_whitespace\n", "            if token.is_whitespace:\n                token.value = '' if last_was_ws or token is tlist.tokens[0] else ' '\n            last_was_ws = token.is_whitespace\n", 'the defect fixed by 9dde7fa: the separator at the start of a nested list is removed'),
    V('c10-stripws-paren-minus2', 'C10', 'bad', 'R10.9', FO, "        cidx, _ = tlist.token_next_by(m=sql.Parenthesis.M_CLOSE)\n", "        cidx = len(tlist.tokens) - 1\n", 'the other half of 05f5255: ")" assumed to be the last child'),
    V('c15-accessor-no-guard', 'C15', 'bad', 'R15.6', S, "                try:\n                    if real_name:\n                        return token.get_real_name()\n                    return token.get_name()\n                except RecursionError as err:\n                    raise SQLParseError(\n                        'Maximum recursion depth exceeded') from err", "                if real_name:\n                    return token.get_real_name()\n                return token.get_name()", 'the defect fixed by a45b003'),
    V('c18-cte-needs-identifier', 'C18', 'bad', 'R18.2', S, "                if (token is not None and token.ttype == T.Keyword.DML\n                        and not (prev_.ttype == T.Keyword.CTE\n                                 or prev_.match(T.Keyword, 'RECURSIVE')\n                                 or prev_.match(T.Punctuation, ','))):\n                    return token.normalized", "                if isinstance(token, (Identifier, IdentifierList)):\n                    tidx, token = self.token_next(tidx, skip_ws=True)\n                    if token is not None and token.ttype == T.Keyword.DML:\n                        return token.normalized", 'the defect fixed by 6660ed3'),
    V('c18-cte-first-dml-any-level', 'C18', 'ok', None, S, "                if (token is not None and token.ttype == T.Keyword.DML\n                        and not (prev_.ttype == T.Keyword.CTE\n                                 or prev_.match(T.Keyword, 'RECURSIVE')\n                                 or prev_.match(T.Punctuation, ','))):\n                    return token.normalized", "                if token is None:\n                    break\n                if token.ttype == T.Keyword.DML and not (prev_.ttype == T.Keyword.CTE or prev_.match(T.Keyword, 'RECURSIVE') or prev_.match(T.Punctuation, ',')):\n                    return token.normalized", 'explicit break'),
    V('c08-hint-dropped', 'C08', 'bad', 'R8.3', FO, "sql_hints = (T.Comment.Multiline.Hint, T.Comment.Single.Hint)", "sql_hints = (T.Comment.Multiline.Hint,)"),
    V('c08-remove-next', 'C08', 'bad', 'R8.3', FO, "                tlist.tokens.remove(token)\n", "                tlist.tokens.remove(token)\n                tlist.tokens.remove(next_) if next_ is not None and next_.is_whitespace else None\n"),
    V('c08-case-in-stmtprocess', 'C08', 'bad', 'R8.4', FM, "        stack.preprocess.append(\n            filters.KeywordCaseFilter(options['keyword_case']))", "        stack.postprocess.append(\n            filters.KeywordCaseFilter(options['keyword_case']))"),
    V('c08-ok-str-upper', 'C08', 'ok', '', FT, "        self.convert = getattr(str, case)", "        self.convert = getattr(str, case)  # upper / lower / capitalize"),
    # ---- C09
    V('c09-pop0', 'C09', 'bad', 'R9.1', G, 'open_idx = opens.pop()', 'open_idx = opens.pop(0)'),
    V('c09-offset-minus1', 'C09', 'bad', 'R9.2', G, 'tidx_offset += close_idx - open_idx\n', 'tidx_offset += close_idx - open_idx - 1\n'),
    V('c09-no-continue-descend', 'C09', 'bad', 'R9.1', G, "            _group_matching(token, cls)\n            continue\n", "            _group_matching(token, cls)\n"),
    V('c09-paren-late', 'C09', 'bad', 'R9.4', G, "        group_brackets,\n        group_parenthesis,\n", "        group_brackets,\n"),
    V('c09-endif-spelling', 'C09', 'bad', 'R9.3', S, "    M_CLOSE = T.Keyword, 'END IF'", "    M_CLOSE = T.Keyword, 'ENDIF'"),
    V('c09-no-delims', 'C09', 'bad', 'R9.5', G, "                if tlist.tokens[from_idx] in delimiters \\\n                        or tlist.tokens[to_idx] in delimiters:", "                if False:", 'the defect fixed by 3f597f9'),
    V('c09-overblocking', 'C09', 'bad', 'R9.5', G, "                if tlist.tokens[from_idx] in delimiters \\\n                        or tlist.tokens[to_idx] in delimiters:", "                if prev_ in delimiters or next_ in delimiters:", 'the regression fixed by 512a9c2: neighbours that are only looked at block the grouping'),
    V('c13-typed-literal-blocked', 'C13', 'bad', 'R13.6', G, "                if tlist.tokens[from_idx] in delimiters \\\n                        or tlist.tokens[to_idx] in delimiters:", "                if prev_ in delimiters or next_ in delimiters:", 'same edit seen from C13: f(date \'..\') is no longer a TypedLiteral'),
    V('c09-no-groupable-begin', 'C09', 'bad', 'R9.6', S, "    M_OPEN = T.Keyword, 'BEGIN'\n    M_CLOSE = T.Keyword, 'END'\n\n    @property\n    def _groupable_tokens(self):\n        return self.tokens[1:-1]\n", "    M_OPEN = T.Keyword, 'BEGIN'\n    M_CLOSE = T.Keyword, 'END'\n", 'the defect fixed by 2b5db94'),
    V('c09-ok-rename', 'C09', 'ok', '', G, None, None, 'rename opens -> stack (whole file)'),
    # ---- C10
    V('c10-reindent-before-strip', 'C10', 'bad', 'R10.2', FM, "    if options.get('strip_whitespace') or options.get('reindent'):\n        stack.enable_grouping()\n        stack.stmtprocess.append(filters.StripWhitespaceFilter())\n\n", ""),
    V('c10-no-having', 'C10', 'bad', 'R10.1', FR, "'SET', 'BETWEEN', 'EXCEPT', 'HAVING', 'LIMIT')", "'SET', 'BETWEEN', 'EXCEPT', 'LIMIT')"),
    V('c10-no-prev-branch', 'C10', 'bad', 'R10.3', FO, "            if prev_ and prev_.ttype != T.Whitespace:\n                tlist.insert_before(tidx, sql.Token(T.Whitespace, ' '))\n                tidx += 1  # has to shift since token inserted before it\n", ""),
    V('c10-no-rstrip', 'C10', 'bad', 'R10.4', FO, "return '\\n'.join(line.rstrip() for line in lines)", "return '\\n'.join(line for line in lines)"),
    V('c10-no-strip-implied', 'C10', 'bad', 'R10.2', FM, "    elif reindent:\n        options['strip_whitespace'] = True\n", "    elif reindent:\n        pass\n"),
    # ---- C11
    V('c11-as-value', 'C11', 'bad', 'R11.1', G, "        return token.is_keyword and token.normalized == 'AS'", "        return token.is_keyword and token.value == 'AS'"),
    V('c11-not-null-blank', 'C11', 'bad', 'R11.3', K, r"(r'NOT\s+NULL\b', tokens.Keyword)", r"(r'NOT NULL\b', tokens.Keyword)"),
    V('c11-aliased-no-skip', 'C11', 'bad', 'R11.4', G, "        nidx, next_ = tlist.token_next(tidx)\n        if isinstance(next_, sql.Identifier):", "        nidx, next_ = tlist.token_next(tidx, skip_ws=False)\n        if isinstance(next_, sql.Identifier):"),
    V('c11-normalized-old', 'C11', 'bad', 'R11.2', S, "        self.normalized = (' '.join(value.upper().split())\n                           if self.is_keyword else value)", "        self.normalized = value.upper() if self.is_keyword else value", 'the defect fixed by 097c205'),
    V('c11-go-case', 'C11', 'bad', 'R11.1', SP, "and value.split()[0].upper() == 'GO'):", "and value.split()[0] == 'GO'):", 'the defect fixed by cfdb8eb'),
    V('c11-ok-casefold', 'C11', 'ok', '', G, "        if tmp_token.value.upper() == 'AS':", "        if tmp_token.normalized == 'AS':"),
    # ---- C12
    V('c12-no-backtick', 'C12', 'bad', 'R12.1', U, "if val[0] in ('\"', \"'\", '`') and val[0] == val[-1]:", "if val[0] in ('\"', \"'\") and val[0] == val[-1]:"),
    V('c12-parent-no-skip', 'C12', 'bad', 'R12.3', S, "        _, prev_ = self.token_prev(dot_idx)\n", "        _, prev_ = self.token_prev(dot_idx, skip_ws=False)\n"),
    V('c12-no-symbol', 'C12', 'bad', 'R12.2', G, "    ttypes = (T.String.Symbol, T.Name)\n\n    tidx, token = tlist.token_next_by(t=ttypes)", "    ttypes = (T.Name,)\n\n    tidx, token = tlist.token_next_by(t=ttypes)"),
    # ---- C13
    V('c13-no-returning', 'C13', 'bad', 'R13.1', S, "        'HAVING', 'RETURNING', 'INTO')", "        'HAVING', 'INTO')"),
    V('c13-identifiers-drop-comments', 'C13', 'bad', 'R13.2', S, "            if not (token.is_whitespace or token.match(T.Punctuation, ',')):", "            if not (token.is_whitespace or token.ttype in T.Punctuation):"),
    V('c13-params-old', 'C13', 'bad', 'R13.3', S, "            elif imt(token, i=(Function, Identifier, TypedLiteral, Operation,\n                               Comparison, Case, Parenthesis),\n                     t=[T.Literal, T.Name, T.Wildcard]):", "            elif imt(token, i=(Function, Identifier, TypedLiteral),\n                     t=[T.Literal, T.Name, T.Wildcard]):", 'the defect fixed by 9fe9fd9'),
    V('c13-params-tuple-types', 'C13', 'bad', 'R13.3', S, "                     t=[T.Literal, T.Name, T.Wildcard]):", "                     t=(T.Literal, T.Name, T.Wildcard)):", 'imt compares a tuple of types by equality: f(1) yields nothing'),
    V('c13-params-no-keyword-arm', 'C13', 'bad', 'R13.3', S, "            result = [token for token in parenthesis.tokens\n                      if token.ttype in T.Keyword]", "            result = []", 'half of the defect fixed by 0cffb30'),
    # ---- C14
    V('c14-lazy-string', 'C14', 'bad', 'R14.1', K, r'''(r"'(''|\\'|[^'])*'", tokens.String.Single)''', r'''(r"'(''|[^'])*?'", tokens.String.Single)'''),
    V('c14-greedy-comment', 'C14', 'bad', 'R14.1', K, r"(r'/\*[\s\S]*?\*/', tokens.Comment.Multiline)", r"(r'/\*[\s\S]*\*/', tokens.Comment.Multiline)"),
    V('c14-dq-after-word', 'C14', 'bad', 'R14.1', K, "    (r'\"(\"\"|\\\\\"|[^\"])*\"', tokens.String.Symbol),\n", ""),
    V('c14-new-prefix-rule', 'C14', 'bad', 'R14.6', K, "    (r'\\?', tokens.Name.Placeholder),", "    (r\"[NE]'[^']*'\", tokens.String.Single),\n    (r'\\?', tokens.Name.Placeholder),"),
    V('c14-no-oracle', 'C14', 'bad', 'R14.3', L, "        self.add_keywords(keywords.KEYWORDS_ORACLE)\n", ""),
    V('c14-lower', 'C14', 'bad', 'R14.3', L, "        val = value.upper()\n        for kwdict", "        val = value.lower()\n        for kwdict"),
    V('c14-dollar-ci', 'C14', 'bad', 'R14.1', K, r"[\s\S]*?(?-i:\1)', tokens.Literal)", r"[\s\S]*?\1', tokens.Literal)", 'the defect fixed by eae05f0'),
    V('c14-ok-string-rewrite', 'C14', 'ok', '', K, r'''(r"'(''|\\'|[^'])*'", tokens.String.Single)''', r'''(r"'(?:[^']|''|\\')*'", tokens.String.Single)''', 'different alternative order: same extents? (only if priorities agree)'),
    # ---- C15
    V('c15-try-only-group', 'C15', 'bad', 'R15.1', FS, None, None, 'the 0.5.0 shape: try only around grouping'),
    V('c15-serializer-outside', 'C15', 'bad', 'R15.2', I, "    stack.postprocess.append(filters.SerializerUnicode())\n    return ''.join(stack.run(sql, encoding))", "    return ''.join(filters.SerializerUnicode().process(s) for s in stack.run(sql, encoding))"),
    V('c15-split-grouping', 'C15', 'bad', 'R15.3', I, "    stack = engine.FilterStack(strip_semicolon=strip_semicolon)\n", "    stack = engine.FilterStack(strip_semicolon=strip_semicolon)\n    stack.enable_grouping()\n"),
    V('c15-keyerror-handler', 'C15', 'bad', 'R15.1', FS, "        except RecursionError as err:", "        except KeyError as err:"),
    V('c15-ok-runtimeerror', 'C15', 'ok', '', FS, "        except RecursionError as err:", "        except RuntimeError as err:", 'RecursionError is a RuntimeError'),
    # ---- C16
    V('c16-backslash-alt', 'C16', 'bad', 'R16.1', K, r'''(r"'(''|\\'|[^'])*'", tokens.String.Single)''', r'''(r"'(''|\\\\|\\'|[^'])*'", tokens.String.Single)'''),
    V('c16-ws-comma-star', 'C16', 'bad', 'R16.1', K, r"(r'\s+?', tokens.Whitespace)", r"(r'(\s+|\s*,)*;', tokens.Whitespace)"),
    V('c16-word-star', 'C16', 'bad', 'R16.1', K, r"(r'PRIMARY\s+KEY\b', tokens.Keyword)", r"(r'PRIMARY(\s+\w+\s?)*KEY\b', tokens.Keyword)"),
    V('c16-comment-plus', 'C16', 'bad', 'R16.1', K, r"(r'(--|# ).*?(\r\n|\r|\n|$)', tokens.Comment.Single)", r"(r'(--|# ).*?(\r\n|\r|\n|$)+', tokens.Comment.Single)"),
    V('c16-strip-comments-regex', 'C16', 'bad', 'R16.3', FO, r"m = re.search(r'([\r\n]+) *$', token.value)", r"m = re.search(r'((\r\n|\r|\n)+) *$', token.value)", 'the 0.4.4 advisory'),
    V('c16-ok-possessive-free', 'C16', 'ok', '', K, r"(r'ORDER\s+BY\b', tokens.Keyword)", r"(r'ORDER\s+BY\b(?!\w)', tokens.Keyword)"),
    # ---- C17
    V('c17-no-end-while', 'C17', 'bad', 'R17.3', SP, "if unified in ('END IF', 'END FOR', 'END WHILE'):", "if unified in ('END IF', 'END FOR'):"),
    V('c17-end-in-case-zero', 'C17', 'bad', 'R17.3', SP, "            if self._in_case:\n                self._in_case -= 1\n                return -1", "            if self._in_case:\n                self._in_case -= 1\n                return 0"),
    V('c17-no-reset-case', 'C17', 'bad', 'R17.4', SP, "        self._in_case = 0\n        self._is_create = False", "        self._is_create = False"),
    V('c17-if-outside-begin', 'C17', 'bad', 'R17.3', SP, "                and self._is_create and self._begin_depth > 0):", "                and self._is_create):"),
    # ---- C18
    V('c18-no-skip-cm', 'C18', 'bad', 'R18.1', S, "        token = self.token_first(skip_cm=True)", "        token = self.token_first()"),
    V('c18-value-not-normalized', 'C18', 'bad', 'R18.2', S, "        elif token.ttype in (T.Keyword.DML, T.Keyword.DDL):\n            return token.normalized", "        elif token.ttype in (T.Keyword.DML, T.Keyword.DDL):\n            return token.value"),
    V('c18-select-untyped', 'C18', 'bad', 'R18.3', K, "    'SELECT': tokens.Keyword.DML,", "    'SELECT': tokens.Keyword,"),
    # ---- C19
    V('c19-split-no-encoding', 'C19', 'bad', 'R19.2', I, "return [str(stmt).strip() for stmt in stack.run(sql, encoding)]", "return [str(stmt).strip() for stmt in stack.run(sql)]"),
    V('c19-format-decodes', 'C19', 'bad', 'R19.1', I, "    stack = engine.FilterStack()\n    options = formatter.validate_options(options)", "    if isinstance(sql, bytes):\n        sql = sql.decode(encoding or 'utf-8')\n    stack = engine.FilterStack()\n    options = formatter.validate_options(options)"),
    V('c19-outfile-utf8', 'C19', 'bad', 'R19.6', C, "stream = open(args.outfile, 'w', encoding=args.encoding)", "stream = open(args.outfile, 'w', encoding='utf-8')"),
    V('c19-unicode-escape', 'C19', 'bad', 'R19.4', L, "text = text.decode('latin-1')", "text = text.decode('unicode-escape')", 'the defect fixed by 17d69fb'),
    V('c19-ok-utf8-alias', 'C19', 'ok', '', L, "text = text.decode('utf-8')", "text = text.decode('utf8')"),
    # ---- C20
    V('c20-no-lock', 'C20', 'bad', 'R20.1', L, "        with cls._lock:\n            if cls._default_instance is None:\n                instance = cls()\n                instance.default_initialization()\n                cls._default_instance = instance", "        if cls._default_instance is None:\n            cls._default_instance = cls()\n            cls._default_instance.default_initialization()", 'the pre-0.5.0 getter'),
    V('c20-lock-in-method', 'C20', 'bad', 'R20.1', L, "    _lock = Lock()\n", "    _lock = None\n"),
    V('c20-cache-in-self', 'C20', 'bad', 'R20.2', L, "        val = value.upper()\n        for kwdict", "        val = self._last = value.upper()\n        for kwdict"),
    V('c20-no-reset-in-case', 'C20', 'bad', 'R20.3', SP, "        self._in_case = 0\n        self._is_create = False", "        self._is_create = False"),
    V('c20-module-splitter', 'C20', 'bad', 'R20.4', FS, "class FilterStack:\n", "_SPLITTER = StatementSplitter()\n\n\nclass FilterStack:\n"),
    V('c20-mutable-default', 'C20', 'bad', 'R20.4', FS, "    def __init__(self, strip_semicolon=False):", "    def __init__(self, strip_semicolon=False, filters=[]):"),
    V('c20-new-type-in-func', 'C20', 'bad', 'R20.5', G, "        return token.ttype == T.Keyword.TZCast", "        return token.ttype == T.Keyword.TZCast or token.ttype == T.Keyword.Join"),
    V('c20-clear-keeps-keywords', 'C20', 'bad', 'R20.6', L, "        self._SQL_REGEX = []\n        self._keywords = []", "        self._SQL_REGEX = []"),
    V('c20-ok-rlock', 'C20', 'ok', '', L, "    _lock = Lock()\n", "    _lock = Lock()  # class-level, created at import\n"),
    V('c20-closure-counter', 'C20', 'bad', 'R20.8', U, "    def wrap(f):\n        def wrapped_f(tlist):\n", "    def wrap(f):\n        calls = [0]\n\n        def wrapped_f(tlist):\n            calls[0] += 1\n"),
    V('c20-closure-cache', 'C20', 'bad', 'R20.8', U, "    def wrap(f):\n        def wrapped_f(tlist):\n", "    def wrap(f):\n        seen = set()\n\n        def wrapped_f(tlist):\n            seen.add(id(tlist))\n"),
    V('c20-func-attr', 'C20', 'bad', 'R20.8', U, "            f(tlist)\n\n        return wrapped_f", "            f(tlist)\n            wrapped_f.last = tlist\n\n        return wrapped_f"),
    V('c20-shared-kwlist', 'C20', 'bad', 'R20.6', L, "        self._SQL_REGEX = []\n        self._keywords = []", "        self._SQL_REGEX = []\n        self._keywords = keywords.SQL_REGEX"),
    V('c20-ok-closure-read', 'C20', 'ok', '', U, "    def wrap(f):\n        def wrapped_f(tlist):\n", "    def wrap(f):\n        skip = cls\n\n        def wrapped_f(tlist):\n            skip\n"),
    # ---- rules added in round 3
    V('c13-recurse-depth', 'C13', 'bad', 'R13.5', U, "        def wrapped_f(tlist):\n            for sgroup in tlist.get_sublists():\n                if not isinstance(sgroup, cls):\n                    wrapped_f(sgroup)", "        def wrapped_f(tlist, depth=0):\n            for sgroup in tlist.get_sublists():\n                if not isinstance(sgroup, cls) and depth < 50:\n                    wrapped_f(sgroup, depth + 1)"),
    V('c13-recurse-skip-apply', 'C13', 'bad', 'R13.5', U, "                    wrapped_f(sgroup)\n            f(tlist)", "                    wrapped_f(sgroup)\n            if len(tlist.tokens) < 10000:\n                f(tlist)"),
    V('c13-sublists-filter', 'C13', 'bad', 'R13.5', S, "            if token.is_group:\n                yield token", "            if token.is_group and len(token.tokens) > 1:\n                yield token"),
    V('c13-ok-recurse-rename', 'C13', 'ok', '', U, "            for sgroup in tlist.get_sublists():\n                if not isinstance(sgroup, cls):\n                    wrapped_f(sgroup)", "            for child in tlist.get_sublists():\n                if isinstance(child, cls):\n                    continue\n                wrapped_f(child)"),
    V('c08-idcase-subtypes', 'C08', 'bad', 'R8.2', FT, "            if ttype in self.ttype and value.strip()[0] != '\"':", "            if any(ttype in t for t in self.ttype) and value.strip()[0] != '\"':"),
    V('c08-idcase-quote-dropped', 'C08', 'bad', 'R8.2', FT, "            if ttype in self.ttype and value.strip()[0] != '\"':", "            if ttype in self.ttype:"),
    V('c08-ok-helper', 'C08', 'ok', '', FT, "    def process(self, stream):\n        for ttype, value in stream:\n            if ttype in self.ttype and value.strip()[0] != '\"':", "    def _wanted(self, ttype, value):\n        return ttype in self.ttype and value.strip()[0] != '\"'\n\n    def process(self, stream):\n        for ttype, value in stream:\n            if self._wanted(ttype, value):"),
    V('c19-cli-default-none', 'C19', 'bad', 'R19.7', C, "        dest='comma_first',\n        default=False,", "        dest='comma_first',\n        default=None,"),
    V('c19-cli-default-differs', 'C19', 'bad', 'R19.7', C, "        dest='wrap_after',\n        default=0,", "        dest='wrap_after',\n        default=80,"),
    V('c19-ok-setdefault', 'C19', 'ok', '', FM, "    options['comma_first'] = comma_first", "    options.update(comma_first=comma_first)"),
    V('c10-blank-outside-loop', 'C10', 'bad', 'R10.6', FO, "        ttypes = (T.Operator, T.Comparison)\n        tidx, token = tlist.token_next_by(t=ttypes)\n        while token:\n            nidx, next_ = tlist.token_next(tidx, skip_ws=False)\n            if next_ and next_.ttype != T.Whitespace:\n                tlist.insert_after(tidx, sql.Token(T.Whitespace, ' '))", "        ttypes = (T.Operator, T.Comparison)\n        blank = sql.Token(T.Whitespace, ' ')\n        tidx, token = tlist.token_next_by(t=ttypes)\n        while token:\n            nidx, next_ = tlist.token_next(tidx, skip_ws=False)\n            if next_ and next_.ttype != T.Whitespace:\n                tlist.insert_after(tidx, blank)"),
    V('c10-ok-local-blank', 'C10', 'ok', '', FO, "            if next_ and next_.ttype != T.Whitespace:\n                tlist.insert_after(tidx, sql.Token(T.Whitespace, ' '))", "            if next_ and next_.ttype != T.Whitespace:\n                blank = sql.Token(T.Whitespace, ' ')\n                tlist.insert_after(tidx, blank)"),
    V('c17-classify-before-reset', 'C17', 'bad', 'R17.5', SP, "            if self.consume_ws and ttype not in EOS_TTYPE:\n                yield sql.Statement(self.tokens)\n\n                # Reset filter and prepare to process next statement\n                self._reset()\n\n            # Change current split level (increase, decrease or remain equal)\n            self.level += self._change_splitlevel(ttype, value)", "            change = self._change_splitlevel(ttype, value)\n            if self.consume_ws and ttype not in EOS_TTYPE:\n                yield sql.Statement(self.tokens)\n\n                # Reset filter and prepare to process next statement\n                self._reset()\n\n            # Change current split level (increase, decrease or remain equal)\n            self.level += change"),
    V('c17-ok-classify-local', 'C17', 'ok', '', SP, "            self.level += self._change_splitlevel(ttype, value)", "            change = self._change_splitlevel(ttype, value)\n            self.level += change"),
    V('c15-raise-limit', 'C15', 'bad', 'R15.4', G, "def group(stmt):\n", "def group(stmt):\n    import sys\n    sys.setrecursionlimit(max(sys.getrecursionlimit(), 5000))\n"),
    V('c14-shared-default-list', 'C14', 'bad', 'R14.3', L, "        self._SQL_REGEX = []\n        self._keywords = []", "        self._SQL_REGEX = []\n        self._keywords = keywords.SQL_REGEX"),
    V('c16-runtime-rule', 'C16', 'bad', 'R16.4', L, "        self._keywords.append(keywords)", "        self._keywords.append(keywords)\n        self._SQL_REGEX.insert(0, (re.compile('|'.join(map(re.escape, keywords)), FLAGS).match, tokens.Keyword))"),
    V('c12-quotes-regex-no-dotall', 'C12', 'bad', 'R12.1', U, "    if val[0] in ('\"', \"'\", '`') and val[0] == val[-1]:\n        val = val[1:-1]\n    return val", "    m = re.match(r'^([\\'\"`])(.*)\\1$', val)\n    return m.group(2) if m else val"),
    V('c12-ok-quotes-regex-dotall', 'C12', 'ok', '', U, "    if val[0] in ('\"', \"'\", '`') and val[0] == val[-1]:\n        val = val[1:-1]\n    return val", "    m = re.match(r'^([\\'\"`])(.*)\\1$', val, re.DOTALL) if len(val) > 1 else None\n    return m.group(2) if m else val"),
    V('c03-strip-bom', 'C03', 'bad', 'R3.0', FS, "            stream = lexer.tokenize(sql, encoding)", "            if isinstance(sql, str):\n                sql = sql.lstrip('\\ufeff')\n            stream = lexer.tokenize(sql, encoding)"),
    # ---- rules added in round 4
    V('c12-aliased-skips-identifier', 'C12', 'bad', 'R12.5', G, "@recurse()\ndef group_aliased(tlist):", "@recurse(sql.Identifier)\ndef group_aliased(tlist):"),
    V('c13-where-skips-parenthesis', 'C13', 'bad', 'R13.5', G, "@recurse(sql.Where)\ndef group_where(tlist):", "@recurse(sql.Where, sql.Parenthesis)\ndef group_where(tlist):"),
    V('c13-ok-order-searches-more', 'C13', 'ok', '', G, "@recurse(sql.Over)\ndef group_over(tlist):", "@recurse()\ndef group_over(tlist):"),
    V('c13-function-name-tuple', 'C13', 'bad', 'R13.3', G, "    tidx, token = tlist.token_next_by(t=T.Name)\n    while token:", "    tidx, token = tlist.token_next_by(t=(T.Name, T.Name.Placeholder))\n    while token:"),
    V('c15-two-frame-pprint', 'C15', 'bad', 'R15.6', S, "                token._pprint_tree(max_depth, depth + 1, f, _pre + parent_pre)", "                token._pprint_children(max_depth, depth, f, _pre + parent_pre)\n\n    def _pprint_children(self, max_depth, depth, f, pre):\n        for t in self.tokens[:0]:\n            pass\n        self._pprint_tree(max_depth, depth + 1, f, pre)"),
    V('c04-decision-before-reset', 'C04', 'bad', 'R4.8', SP, '            if self.consume_ws and ttype not in EOS_TTYPE:\n                yield sql.Statement(self.tokens)\n\n                # Reset filter and prepare to process next statement\n                self._reset()\n\n            # Change current split level (increase, decrease or remain equal)\n            self.level += self._change_splitlevel(ttype, value)\n\n            # Append the token to the current statement\n            self.tokens.append(sql.Token(ttype, value))\n\n            # Check if we get the end of a statement\n            # Issue762: Allow GO (or "GO 2") as statement splitter.\n            # When implementing a language toggle, it\'s not only to add\n            # keywords it\'s also to change some rules, like this splitting\n            # rule.\n            if (self.level <= 0 and ttype is T.Punctuation and value == \';\') \\\n                    or (ttype is T.Keyword\n                        and value.split()[0].upper() == \'GO\'):\n                self.consume_ws = True\n', "            at_end = (self.level <= 0 and ttype is T.Punctuation and value == ';') \\\n                or (ttype is T.Keyword and value.split()[0].upper() == 'GO')\n            if self.consume_ws and ttype not in EOS_TTYPE:\n                yield sql.Statement(self.tokens)\n\n                # Reset filter and prepare to process next statement\n                self._reset()\n\n            # Change current split level (increase, decrease or remain equal)\n            self.level += self._change_splitlevel(ttype, value)\n\n            # Append the token to the current statement\n            self.tokens.append(sql.Token(ttype, value))\n\n            if at_end:\n                self.consume_ws = True\n"),
    V('c10-split-on-raw-value', 'C10', 'bad', 'R10.1', FR, "        m_split = T.Keyword, split_words, True\n        tidx, token = tlist.token_next_by(m=m_split, idx=idx)", "        tidx, token = tlist._token_matching(lambda t: t.ttype is T.Keyword and any(re.search(w, t.value, re.I) for w in split_words), idx + 1)"),
    V('c20-class-list-alias-mutation', 'C20', 'bad', 'R20.4', S,
      ("        types = [T.Name, T.Wildcard, T.String.Symbol]\n\n        if keywords:\n            types.append(T.Keyword)", "class TokenList(Token):\n"),
      ("        types = self._NAME_TYPES\n\n        if keywords:\n            types += [T.Keyword]", "class TokenList(Token):\n    _NAME_TYPES = [T.Name, T.Wildcard, T.String.Symbol]\n")),
    V('c20-class-list-added', 'C20', 'ok', '', S, "class TokenList(Token):\n", "class TokenList(Token):\n    _NAME_TYPES2 = [T.Name, T.Wildcard]\n"),
    V('c09-ok-stack-init-order', 'C09', 'ok', '', G, "    opens = []\n    tidx_offset = 0\n    # The opening", "    tidx_offset = 0\n    opens = []\n    # The opening"),
    V('c09-matcher-scans-delimiters', 'C09', 'bad', 'R9.1', G, "        if token in delimiters:\n            continue\n\n        if token.is_group and not isinstance(token, cls):", "        if token.is_group and not isinstance(token, cls):"),
    V('c07-none-into-token-index', 'C07', 'bad', 'R7.3', FR, "                            if comma is None:\n                                continue\n                            token = comma", "                            token = comma"),
    V('c07-validation-accepts-float-width', 'C07', 'bad', 'R7.2', FM, "    try:\n        indent_width = int(indent_width)\n    except (TypeError, ValueError, OverflowError):\n        raise SQLParseError('indent_width requires an integer')\n    if indent_width < 1:", "    if indent_width < 1:"),
    V('c06-reindent-without-strip', 'C06', 'bad', 'R6.3', FM, "    if options.get('strip_whitespace') or options.get('reindent'):", "    if options.get('strip_whitespace'):"),
    # ---- round 5 rules
    V('c01-error-run', 'C01', 'bad', 'R1.10', K, "    (r':=', tokens.Assignment),", "    (r'[\\x00-\\x08]+', tokens.Error),\n    (r':=', tokens.Assignment),", 'a run of control characters as one Error token'),
    V('c01-error-single', 'C01', 'ok', None, K, "    (r':=', tokens.Assignment),", "    (r'[\\x00-\\x08]', tokens.Error),\n    (r':=', tokens.Assignment),", 'a one-character Error rule is what the fallback does anyway'),
    V('c06-insert-after-drops', 'C06', 'bad', 'R6.6', S, "        if next_ is None:\n            self.tokens.append(token)\n        else:\n            self.tokens.insert(nidx, token)", "        if next_ is None:\n            self.tokens.append(token)\n        else:\n            self.tokens[where + 1:nidx] = [token]", 'the helper replaces the skipped whitespace (and whatever else lies there)'),
    V('c06-insert-after-slice', 'C06', 'ok', None, S, "            self.tokens.insert(nidx, token)\n\n    def has_alias", "            self.tokens[nidx:nidx] = [token]\n\n    def has_alias", 'empty-slice assignment is an insertion'),
    V('c06-insert-before-twice', 'C06', 'bad', 'R6.6', S, "        token.parent = self\n        self.tokens.insert(where, token)", "        token.parent = self\n        self.tokens.insert(where, token)\n        if token.is_newline:\n            self.tokens.insert(where, token)"),
    V('c06-insert-before-noparent', 'C06', 'ok', None, S, "        token.parent = self\n        self.tokens.insert(where, token)", "        self.tokens.insert(where, token)\n        token.parent = self", 'statement order'),
    V('c08-sublists-skip-comment', 'C08', 'bad', 'R8.5', S, "            if token.is_group:\n                yield token", "            if token.is_group and not isinstance(token, Comment):\n                yield token"),
    V('c08-strip-no-descent', 'C08', 'bad', 'R8.5', FO, "        [self.process(sgroup) for sgroup in stmt.get_sublists()]\n        StripCommentsFilter._process(stmt)", "        [self.process(sgroup) for sgroup in stmt.get_sublists() if not isinstance(sgroup, sql.Parenthesis)]\n        StripCommentsFilter._process(stmt)"),
    V('c10-where-open-extra', 'C10', 'bad', 'R10.7', S, "    M_OPEN = T.Keyword, 'WHERE'", "    M_OPEN = T.Keyword, ('WHERE', 'QUALIFY')"),
    V('c10-case-close-extra', 'C10', 'bad', 'R10.7', S, "    M_OPEN = T.Keyword, 'CASE'\n    M_CLOSE = T.Keyword, 'END'", "    M_OPEN = T.Keyword, 'CASE'\n    M_CLOSE = T.Keyword, ('END', 'END CASE')"),
    V('c12-offset-name', 'C12', 'bad', 'R12.7', K, "    'OFFSET': tokens.Keyword,", "    'OFFSET': tokens.Name,"),
    V('c12-limit-builtin', 'C12', 'bad', 'R12.7', K, "    'LIMIT': tokens.Keyword,", "    'LIMIT': tokens.Name.Builtin,"),
    V('c18-start-shadowed', 'C18', 'bad', 'R18.3', K, "    'SORT': tokens.Keyword,", "    'SORT': tokens.Keyword,\n    'START': tokens.Keyword,", 'an earlier dictionary re-types a DML word'),
    V('c19-bool-type', 'C19', 'bad', 'R19.8', C, "        type=_boolean,\n        help='Insert", "        type=bool,\n        help='Insert", 'the defect fixed by 6590149'),
    V('c19-bool-any-true', 'C19', 'bad', 'R19.8', C, "    if value.lower() in ('false', '0', 'no', 'off'):\n        return False", "    if value.lower() in ('0', 'no', 'off'):\n        return False\n    if value:\n        return True"),
    V('c15-recurse-counter', 'C15', 'bad', 'R15.7', U, "        def wrapped_f(tlist):\n", "        depth = [0]\n\n        def wrapped_f(tlist):\n            depth[0] += 1\n"),
    V('c05-dcl-early-publish', 'C05', 'bad', 'R5.9', L, "        with cls._lock:\n            if cls._default_instance is None:\n                instance = cls()\n                instance.default_initialization()\n                cls._default_instance = instance", "        if cls._default_instance is None:\n            with cls._lock:\n                if cls._default_instance is None:\n                    cls._default_instance = cls()\n                    cls._default_instance.default_initialization()"),
    V('c17-parsestream-blockwise', 'C17', 'bad', 'R17.6', I, "    return stack.run(stream, encoding)", "    if hasattr(stream, 'readlines'):\n        return (s for block in stream.readlines(65536) for s in stack.run(block, encoding))\n    return stack.run(stream, encoding)"),
    V('c14-clean-before-lex', 'C14', 'bad', 'R14.9', I, "    return stack.run(stream, encoding)", "    return stack.run(stream.replace('\\ufeff', '') if isinstance(stream, str) else stream, encoding)"),
    V('c11-linewise-lexing', 'C11', 'bad', 'R11.9', FS, "            stream = lexer.tokenize(sql, encoding)", "            stream = (t for line in sql.splitlines(True) for t in lexer.tokenize(line, encoding)) if isinstance(sql, str) else lexer.tokenize(sql, encoding)"),
    # ---- round 6 rules
    V('c01-eq-lookahead', 'C01', 'bad', 'R1.12', L, "        for pos, char in iterable:\n", "        for pos, char in iterable:\n            if char == '=' and text[pos + 1] == ' ':\n                yield tokens.Operator.Comparison, char\n                continue\n", 'a fast path that looks one character ahead without a bound'),
    V('c01-punct-fastpath-ok', 'C01', 'ok', None, L, "        for pos, char in iterable:\n", "        for pos, char in iterable:\n            if char in '(),;':\n                yield tokens.Punctuation, char\n                continue\n", 'a lossless single-character fast path that agrees with the table'),
    V('c14-punct-fastpath-wrong-type', 'C14', 'bad', 'R14.S', L, "        for pos, char in iterable:\n", "        for pos, char in iterable:\n            if char in '(),;.':\n                yield tokens.Punctuation, char\n                continue\n", 'the fast path also takes "." which starts a number in ".5"'),
    V('c20-init-skip-flag', 'C20', 'bad', 'R20.9', L, "        self.clear()\n        self.set_SQL_REGEX(keywords.SQL_REGEX)", "        if getattr(self, '_default_loaded', False) and self._SQL_REGEX:\n            return\n        self.clear()\n        self._default_loaded = True\n        self.set_SQL_REGEX(keywords.SQL_REGEX)"),
    V('c17-unify-blank-only', 'C17', 'bad', 'R17.7', SP, "        unified = ' '.join(value.upper().split())", "        unified = ' '.join(value.upper().split(' '))", 'only blanks are collapsed'),
    V('c08-serializer-splitlines-keepends', 'C08', 'ok', None, U, "    lines = SPLIT_REGEX.split(text)\n", "    lines = SPLIT_REGEX.split(text) if (\"'\" in text or '\"' in text) else [x for l in text.splitlines(True) for x in (l.rstrip('\\r\\n'), l[len(l.rstrip('\\r\\n')):])]\n"),
    V('c08-serializer-splitlines', 'C08', 'bad', 'R8.9', U, "    lines = SPLIT_REGEX.split(text)\n", "    if \"'\" not in text and '\"' not in text:\n        return text.splitlines() + ([''] if text[-1:] in ('\\r', '\\n', '') else [])\n    lines = SPLIT_REGEX.split(text)\n", 'fast path through str.splitlines: VT, FF, NEL, LS, PS ... become line ends'),
    V('c07-last-stmt-tokens', 'C07', 'bad', 'R7.8', FR, "            nl = '\\n' if str(self._last_stmt).endswith('\\n') else '\\n\\n'", "            nl = '\\n' if self._last_stmt.tokens and str(self._last_stmt.tokens[-1]).endswith('\\n') else '\\n\\n'"),
    V('c15-indent-table', 'C15', 'ok', None, FR, "class ReindentFilter:\n", "_PAD = tuple(' ' * i for i in range(64))\n\n\nclass ReindentFilter:\n", 'unused table alone is harmless'),
    V('c15-indent-table-used', 'C15', 'bad', 'R15.8', FR, ("class ReindentFilter:\n", "            self.n + self.char * max(0, self.leading_ws + offset))"), ("_PAD = tuple(' ' * i for i in range(64))\n\n\nclass ReindentFilter:\n", "            self.n + _PAD[max(0, self.leading_ws + offset)])"), 'indentation looked up in a table of 64 widths'),
    V('c18-matching-cutoff', 'C18', 'bad', 'R18.6', G, "    opens = []\n", "    if len(tlist.tokens) > 5000:\n        return\n    opens = []\n"),
    V('c03-offset-off-by-one', 'C03', 'bad', 'R3.B', S, "            if idx <= offset < end:", "            if idx < offset <= end:"),
    V('c03-within-self', 'C03', 'bad', 'R3.B', S, "        parent = self.parent\n        while parent:\n            if isinstance(parent, group_cls):", "        parent = self\n        while parent:\n            if isinstance(parent, group_cls):"),
    V('c02-group-tokens-no-refresh', 'C02', 'bad', 'R2.B', S, "            grp.value = str(start)\n", ""),
    # ---- round 7 rules
    V('c07-int-no-overflow', 'C07', 'bad', 'R7.2', FM, "        wrap_after = int(wrap_after)\n    except (TypeError, ValueError, OverflowError):", "        wrap_after = int(wrap_after)\n    except (TypeError, ValueError):", 'the defect fixed by 1a55a07'),
    V('c03-statement-appended-later', 'C03', 'bad', 'R3.8', SP, "        if self.tokens and not all(t.is_whitespace for t in self.tokens):\n            yield sql.Statement(self.tokens)", "        if self.tokens and not all(t.is_whitespace for t in self.tokens):\n            stmt = sql.Statement(self.tokens[:1])\n            stmt.tokens.extend(self.tokens[1:])\n            yield stmt"),
    V('c03-statement-list-copy', 'C03', 'ok', None, SP, "        if self.tokens and not all(t.is_whitespace for t in self.tokens):\n            yield sql.Statement(self.tokens)", "        if self.tokens and not all(t.is_whitespace for t in self.tokens):\n            yield sql.Statement(list(self.tokens))"),
    V('c04-grouping-edits-value', 'C04', 'bad', 'R4.9', G, "        if end is None:\n            end = tlist._groupable_tokens[-1]", "        token.value = token.value.upper()\n        if end is None:\n            end = tlist._groupable_tokens[-1]"),
    V('c12-period-takes-parenthesis', 'C12', 'bad', 'R12.10', G, "        sqlcls = sql.SquareBrackets, sql.Identifier\n        ttypes = T.Name, T.String.Symbol\n        return imt(token, i=sqlcls, t=ttypes)", "        sqlcls = sql.SquareBrackets, sql.Identifier, sql.Parenthesis\n        ttypes = T.Name, T.String.Symbol\n        return imt(token, i=sqlcls, t=ttypes)"),
    V('c12-period-takes-function', 'C12', 'ok', None, G, "        sqlcls = sql.SquareBrackets, sql.Function\n        ttypes = T.Name, T.String.Symbol, T.Wildcard, T.String.Single", "        sqlcls = sql.SquareBrackets, sql.Function, sql.Case\n        ttypes = T.Name, T.String.Symbol, T.Wildcard, T.String.Single", 'a Case after a period changes no reference inside a subquery'),
    V('c12-parent-name-last-dot', 'C12', 'ok', None, S, "        dot_idx, _ = self.token_next_by(m=(T.Punctuation, '.'))\n        _, prev_ = self.token_prev(dot_idx)", "        dot_idx, _ = self.token_next_by(m=(T.Punctuation, '.'))\n        while dot_idx is not None and self.token_next_by(m=(T.Punctuation, '.'), idx=dot_idx)[0] is not None:\n            dot_idx = self.token_next_by(m=(T.Punctuation, '.'), idx=dot_idx)[0]\n        _, prev_ = self.token_prev(dot_idx)", 'first and last period coincide for name and qualifier.name, the references of the property'),
    V('c13-where-includes-close', 'C13', 'bad', 'R13.8', G, "        else:\n            end = tlist.tokens[eidx - 1]\n        # TODO", "        else:\n            end = tlist.tokens[eidx]\n        # TODO"),
    V('c13-where-eidx-direct', 'C13', 'ok', None, G, "        # TODO: convert this to eidx instead of end token.\n        # i think above values are len(tlist) and eidx-1\n        eidx = tlist.token_index(end)\n", "        eidx = tlist.tokens.index(end)\n"),
    V('c13-cases-else-dropped', 'C13', 'bad', 'R13.9', S, "            elif token.match(T.Keyword, 'ELSE'):\n                ret.append((None, []))\n                mode = VALUE", "            elif token.match(T.Keyword, 'ELSE'):\n                mode = VALUE"),
    V('c13-cases-then-kept-in-condition', 'C13', 'bad', 'R13.9', S, "            elif token.match(T.Keyword, 'THEN'):\n                mode = VALUE\n", "            elif token.match(T.Keyword, 'THEN'):\n                ret[-1][0].append(token)\n                mode = VALUE\n                continue\n"),
    V('c07-case-close-endcase', 'C07', 'bad', 'R7.10', S, "    M_OPEN = T.Keyword, 'CASE'\n    M_CLOSE = T.Keyword, 'END'", "    M_OPEN = T.Keyword, 'CASE'\n    M_CLOSE = T.Keyword, ('END', 'END CASE')"),
    V('c20-parse-adds-keywords', 'C20', 'bad', 'R20.10', I, "    stack = engine.FilterStack()\n    stack.enable_grouping()\n", "    stack = engine.FilterStack()\n    stack.enable_grouping()\n    if encoding == 'mysql':\n        from sqlparse.lexer import Lexer\n        Lexer.get_default_instance().add_keywords({'STRAIGHT_JOIN': tokens.Keyword})\n"),
    V('c10-multiword-ws-old', 'C10', 'bad', 'R10.9', FO, "                elif token.is_keyword or token.ttype in (\n                        T.Name.Builtin, T.Operator.Comparison):", "                elif False:", 'the defect fixed by 495e7f5'),
    V('c06-collapse-every-token', 'C06', 'bad', 'R6.10', FO, "                elif token.is_keyword or token.ttype in (\n                        T.Name.Builtin, T.Operator.Comparison):", "                elif not token.is_whitespace:", 'quoted names, literals and comments lose their inner blanks'),
    V('c06-collapse-upper', 'C06', 'bad', 'R6.10', FO, "                    token.value = ' '.join(head.split()) + (", "                    token.value = ' '.join(head.upper().split()) + (", 'a layout option changes the letter case of keywords'),
    V('c06-collapse-tz-literal', 'C06', 'bad', 'R6.10', FO, "                    head, quote, literal = token.value.partition(\"'\")\n                    token.value = ' '.join(head.split()) + (\n                        ' ' + quote + literal if quote else '')", "                    token.value = ' '.join(token.value.split())", "the literal of AT TIME ZONE '..' is rewritten"),
    V('c06-collapse-regex-ok', 'C06', 'ok', None, FO, "                    token.value = ' '.join(head.split()) + (\n                        ' ' + quote + literal if quote else '')", "                    token.value = ' '.join(head.split()) + (\n                        ' ' + quote + literal if quote != '' else '')"),
    # ---- round 8 rules
    V('c18-cte-dml-name-old', 'C18', 'bad', 'R18.2', S, "                if (token is not None and token.ttype == T.Keyword.DML\n                        and not (prev_.ttype == T.Keyword.CTE\n                                 or prev_.match(T.Keyword, 'RECURSIVE')\n                                 or prev_.match(T.Punctuation, ','))):", "                if token is not None and token.ttype == T.Keyword.DML:", 'the defect fixed by fcb2332'),
    V('c18-cte-no-recursive', 'C18', 'bad', 'R18.2', S, "                                 or prev_.match(T.Keyword, 'RECURSIVE')\n", "", 'WITH RECURSIVE start AS ...'),
    V('c11-eos-tuple-new-site', 'C11', 'bad', 'R11.5', SP, "            # Append the token to the current statement\n", "            if ttype not in EOS_TTYPE:\n                self._in_declare = self._in_declare and value != ';'\n            # Append the token to the current statement\n", 'membership in a display of types is equality: a line break is not in it'),
    V('c11-eos-containment-ok', 'C11', 'ok', None, SP, "            # Append the token to the current statement\n", "            if ttype not in T.Whitespace and ttype not in T.Comment:\n                self._seen_token = True\n            # Append the token to the current statement\n"),
    V('c09-align-comments-early', 'C09', 'bad', 'R9.8', G, "        group_over,\n", "        align_comments,\n        group_over,\n"),
    V('c03-stale-index', 'C03', 'bad', 'R3.4c', G, "            tlist.group_tokens(cls, open_idx, close_idx)\n            tidx_offset += close_idx - open_idx\n", "            tlist.group_tokens(cls, open_idx, close_idx)\n            tidx_offset += close_idx - open_idx\n            last_close = tidx\n"),
    V('c03-index-recomputed-ok', 'C03', 'ok', None, G, "            tlist.group_tokens(cls, open_idx, close_idx)\n            tidx_offset += close_idx - open_idx\n", "            tlist.group_tokens(cls, open_idx, close_idx)\n            tidx_offset += close_idx - open_idx\n            tidx = idx - tidx_offset\n"),
    V('c01-recursive-helper', 'C01', 'bad', 'R1.13', L, ("class Lexer:\n", "        iterable = enumerate(text)\n"), ("def _skip_blanks(text, pos):\n    return _skip_blanks(text, pos + 1) if text[pos:pos + 1] == ' ' else pos\n\n\nclass Lexer:\n", "        _skip_blanks(text, 0)\n        iterable = enumerate(text)\n"), 'a run of blanks as long as the recursion limit'),
    V('c11-splitter-counts-blanks', 'C11', 'bad', 'R11.11', SP, ("        self._begin_depth = 0\n", "            self.level += self._change_splitlevel(ttype, value)\n", "        if ttype is T.Keyword.DDL and unified.startswith('CREATE'):"), ("        self._begin_depth = 0\n        self._blanks = 0\n", "            if value == ' ':\n                self._blanks += 1\n            self.level += self._change_splitlevel(ttype, value)\n", "        if unified == 'IF' and self._blanks and self._is_create and self._begin_depth > 0:\n            return 0\n        if ttype is T.Keyword.DDL and unified.startswith('CREATE'):"), 'state kept in process distinguishes a blank from a line break'),
    V('c05-split-at-quoted-semicolon', 'C05', 'bad', 'R5.10', SP, "            if (self.level <= 0 and ttype is T.Punctuation and value == ';') \\", "            if (self.level <= 0 and value.strip('\"') == ';') \\", 'a quoted name that is a semicolon ends the statement'),
    V('c05-last-statement-dropped-if-comment', 'C05', 'ok', None, SP, "        if self.tokens and not all(t.is_whitespace for t in self.tokens):", "        if self.tokens and any(not t.is_whitespace for t in self.tokens):"),
    V('c12-alias-any-ws-old', 'C12', 'bad', 'R12.9', S, "        idx, last = self.token_prev(len(self.tokens), skip_cm=True)\n        _, expr = self.token_prev(idx, skip_cm=True)\n        _, sep = self.token_prev(idx, skip_ws=False)\n        if (expr is not None and not expr.match(T.Punctuation, '.')\n                and sep is not expr):\n            return self._get_first_name(idx)", "        _, ws = self.token_next_by(t=T.Whitespace)\n        if len(self.tokens) > 2 and ws is not None:\n            return self._get_first_name(reverse=True)", 'the defect fixed by 9afb50c'),
    V('c12-alias-period-forgotten', 'C12', 'bad', 'R12.9', S, "        if (expr is not None and not expr.match(T.Punctuation, '.')\n                and sep is not expr):", "        if expr is not None and sep is not expr:"),
    V('c12-alias-sep-identity', 'C12', 'bad', 'R12.9', S, "                and sep is not expr):", "                and sep.ttype is T.Whitespace):", 'a line break in front of the alias'),
    V('c12-alias-sep-flag-ok', 'C12', 'ok', None, S, "                and sep is not expr):", "                and (sep.is_whitespace or sep is not expr)):"),
]

WHOLE_FILE = {
    'c01-ok-rename': lambda s: s.replace('iterable', 'it_'),
    'c03-ok-rename': lambda s: s.replace('tidx_offset', 'shift'),
    'c09-ok-rename': lambda s: s.replace('opens', 'stack_'),
    'c15-try-only-group': lambda s: s.replace(
        "        try:\n            stream = lexer.tokenize(sql, encoding)",
        "        if True:\n            stream = lexer.tokenize(sql, encoding)").replace(
        "                if self._grouping:\n                    stmt = grouping.group(stmt)\n",
        "                if self._grouping:\n                    try:\n                        stmt = grouping.group(stmt)\n                    except RecursionError as err:\n                        raise SQLParseError('Maximum recursion depth exceeded') from err\n").replace(
        "        except RecursionError as err:\n            raise SQLParseError('Maximum recursion depth exceeded') from err\n", ""),
}


def apply(v, src):
    if v['id'] in WHOLE_FILE:
        new = WHOLE_FILE[v['id']](src)
        return new if new != src else None
    if isinstance(v['old'], (tuple, list)):
        # several cooperating edits in one file
        for o, n in zip(v['old'], v['new']):
            if src.count(o) != 1:
                return None
            src = src.replace(o, n)
        return src
    if src.count(v['old']) != 1:
        return None
    return src.replace(v['old'], v['new'])


def _run_one(args):
    v, root = args
    try:
        base = Repo(root)
        src = base.files.get(v['file'])
        if src is None:
            return dict(id=v['id'], outcome='skipped', why='file missing')
        new = apply(v, src)
        if new is None:
            return dict(id=v['id'], outcome='skipped', why='anchor text no longer occurs exactly once')
        mod = importlib.import_module(f'sa.props.{v["prop"].lower()}')
        # baseline refuted keys
        c0 = report.Ctx(v['prop'], base, 'quick')
        mod.run(c0)
        base_ref = {(o.rule, o.key) for o in c0.obs if o.status == 'refuted'}
        try:
            r2 = Repo(root, overlay={v['file']: new})
        except AnalysisError as e:
            return dict(id=v['id'], outcome='skipped', why=f'variant does not parse: {e}')
        c1 = report.Ctx(v['prop'], r2, 'quick')
        try:
            mod.run(c1)
            err = None
        except AnalysisError as e:
            err = str(e)
        new_ref = [o for o in c1.obs if o.status == 'refuted' and (o.rule, o.key) not in base_ref]
        und = [o for o in c1.obs if o.status == 'undetermined']
        fired_rules = sorted({o.rule for o in new_ref})
        if v['kind'] == 'bad':
            hit = [o for o in new_ref if o.rule.startswith(v['rule'])]
            if hit:
                return dict(id=v['id'], outcome='fired', rules=fired_rules, example=f'[{hit[0].rule}] {hit[0].loc}: {hit[0].detail[:140]}')
            if new_ref:
                return dict(id=v['id'], outcome='fired-other-rule', rules=fired_rules, expected=v['rule'], example=f'[{new_ref[0].rule}] {new_ref[0].detail[:140]}')
            if err or und:
                return dict(id=v['id'], outcome='analysis-error', why=err or und[0].detail)
            return dict(id=v['id'], outcome='MISSED', expected=v['rule'])
        else:
            if new_ref:
                return dict(id=v['id'], outcome='FALSE-ALARM', rules=fired_rules, example=f'[{new_ref[0].rule}] {new_ref[0].detail[:140]}')
            if err or und:
                return dict(id=v['id'], outcome='analysis-error', why=err or und[0].detail)
            return dict(id=v['id'], outcome='silent')
    except Exception as e:          # pragma: no cover
        import traceback
        return dict(id=v['id'], outcome='analysis-error', why=f'{type(e).__name__}: {e}', tb=traceback.format_exc()[-400:])


def run_for(pid, root):
    vs = [v for v in VARIANTS if v['prop'] == pid]
    if not vs:
        return {'results': [], 'note': 'no variants registered'}
    workers = min(16, len(vs), os.cpu_count() or 1)
    with cf.ProcessPoolExecutor(max_workers=workers) as ex:
        results = list(ex.map(_run_one, [(v, root) for v in vs]))
    summary = {}
    for r in results:
        summary[r['outcome']] = summary.get(r['outcome'], 0) + 1
    return {'results': results, 'summary': summary,
            'rule': 'bad variants must make the named rule fire (fired / fired-other-rule count as detected); ok variants must stay silent; '
                    'skipped = anchor no longer present in /repo'}
