"""Variant liveness (thorough tier) -- filled in per property later."""


def run_for(pid, root):
    return {'results': [], 'note': 'no variants registered yet'}
