"""Lexer vocabulary (OUT) and the literals that consumers compare token text
against (MATCHLIT) -- DESIGN 2.2.  Cross-checks are *table agreement*: regex
constants from the source evaluated on string constants from the source."""
import ast
import re

from . import rx
from .astutil import src, is_name, is_attr, Guards
from .fold import TT, NotConst, ClsRef
from .model import own_nodes
from .tables import get_tables

KEYWORD = TT(('Keyword',))
RIGHT_CONTEXTS = [' ', '\n', ';', ',', ')', '']


class Vocab:
    def __init__(self, ctx):
        self.ctx = ctx
        self.T = get_tables(ctx)
        self.rule_words = {}
        for r in self.T.lex:
            try:
                w = rx.enum_words(r.tree)
            except Exception:
                w = None
            self.rule_words[r.index] = w
        self._emit = {}

    def spell(self, word, sep=' '):
        return word.replace(' ', sep).replace('0', '7')

    def emit_types(self, word, contexts=RIGHT_CONTEXTS, cases=('upper', 'lower')):
        """set of (ttype) the lexer gives the whole `word` (normalised spelling) as ONE token, over
        the right contexts; also returns the contexts in which it is not one token"""
        key = (word, tuple(contexts))
        if key in self._emit:
            return self._emit[key]
        types, broken = set(), []
        for case in cases:
            w = self.spell(word)
            w = w.upper() if case == 'upper' else w.lower()
            for c in contexts:
                r, end, tt = self.T.lex_one(w + c, 0)
                if end == len(w):
                    types.add(tt)
                else:
                    broken.append((w + c, end, tt))
        self._emit[key] = (types, broken)
        return types, broken

    def extensions(self, word):
        """normalised words w = word + ' ' + more that the lexer emits as ONE token"""
        out = {}
        for r in self.T.lex:
            ws = self.rule_words.get(r.index)
            if not ws:
                continue
            for w in ws:
                if w.startswith(word + ' ') and w != word:
                    rr, end, tt = self.T.lex_one(self.spell(w) + ' ', 0)
                    if end == len(self.spell(w)):
                        out[w] = tt
        return out

    def dedicated_rule_for(self, word):
        r, end, tt = self.T.lex_one(self.spell(word) + ' ', 0)
        return r if end == len(self.spell(word)) else None


def get_vocab(ctx):
    return ctx.shared('vocab', lambda: Vocab(ctx))


# ---------------------------------------------------------------------------
# normal-form descriptor of Token.normalized, from the AST of Token.__init__

def normalized_descriptor(ctx):
    """{'upper': ..., 'ws': bool} for keyword tokens: the weakest normal form over all paths of
    Token.__init__ on which the token is a keyword (copy propagation along each path)."""
    from .astutil import enum_paths, sym_path
    f = ctx.repo.func('sqlparse.sql.Token.__init__')
    vparam = f.params[2]
    result = None
    node = None
    npaths = 0
    for p in enum_paths(f.node.body):
        evs, env = sym_path(p)
        stores = [(s_, v) for (k, s_, v, _) in evs if k == 'stmt' and isinstance(s_, ast.Assign) and any(is_attr(t, 'normalized', 'self') for t in s_.targets)]
        if not stores:
            continue
        s_, v = stores[-1]
        node = s_
        val = v.value
        facts = [a for a in p.facts() if a[0] != '|']
        if ('self.is_keyword', False) in facts:
            continue
        if isinstance(val, ast.IfExp) and 'is_keyword' in src(val.test):
            val = val.body
        npaths += 1
        d = text_normal_form(val, vparam)
        # a conditional collapse (`if ' ' in value`) only holds on that path; other paths keep the weaker form
        if result is None:
            result = d
        else:
            result = {'upper': result['upper'] if result['upper'] == d['upper'] else False, 'ws': result['ws'] and d['ws'], 'base': result['base'] and d['base']}
    ctx.need(result is not None and node is not None, 'Token.__init__ no longer stores self.normalized')
    # str(value) wrapping of the parameter is transparent
    return result, node


def text_normal_form(expr, base):
    """descriptor of an expression computing a normal form of the text variable `base`"""
    d = {'upper': False, 'ws': False, 'base': False}
    e = expr
    # ' '.join(X.split())
    if isinstance(e, ast.Call) and isinstance(e.func, ast.Attribute) and e.func.attr == 'join' and isinstance(e.func.value, ast.Constant) \
            and e.func.value.value == ' ' and len(e.args) == 1 and isinstance(e.args[0], ast.Call) \
            and isinstance(e.args[0].func, ast.Attribute) and e.args[0].func.attr == 'split' and not e.args[0].args:
        inner = text_normal_form(e.args[0].func.value, base)
        inner['ws'] = True
        return inner
    if isinstance(e, ast.Call) and isinstance(e.func, ast.Attribute) and e.func.attr in ('upper', 'lower', 'casefold') and not e.args:
        inner = text_normal_form(e.func.value, base)
        inner['upper'] = e.func.attr
        return inner
    if isinstance(e, ast.Call) and isinstance(e.func, ast.Attribute) and e.func.attr == 'sub' and len(e.args) == 3 \
            and isinstance(e.args[0], ast.Constant) and e.args[0].value in (r'\s+',) and isinstance(e.args[1], ast.Constant) and e.args[1].value == ' ':
        inner = text_normal_form(e.args[2], base)
        inner['ws'] = True
        return inner
    if is_name(e, base) or (isinstance(e, ast.Attribute) and e.attr in ('value',)) or (
            isinstance(e, ast.Call) and is_name(e.func, 'str') and len(e.args) == 1 and is_name(e.args[0], base)):
        d['base'] = True
        return d
    if isinstance(e, ast.Attribute) and e.attr == 'normalized':
        d['base'] = 'normalized'
        return d
    return d


# ---------------------------------------------------------------------------
# MATCHLIT: every (ttype, values, regex?) literal that reaches Token.match / imt(m=) and
# every comparison of token text with string constants

class Lit:
    def __init__(self, func, node, kind, ttype, values, regex, side, where):
        self.func, self.node, self.kind, self.ttype, self.values, self.regex, self.side, self.where = \
            func, node, kind, ttype, values, regex, side, where

    @property
    def loc(self):
        mod = self.func.mod if hasattr(self.func, 'mod') else self.func
        return f'{mod.relpath}:{self.node.lineno}'

    def __repr__(self):
        return f'<Lit {self.kind} {self.ttype} {self.values} regex={self.regex} side={self.side} @{self.loc}>'


def _as_patterns(v):
    """folded m= value -> list of (ttype, values, regex)"""
    out = []
    if isinstance(v, list):
        for x in v:
            out += _as_patterns(x)
        return out
    if isinstance(v, tuple) and v and isinstance(v[0], TT):
        ttype = v[0]
        vals = v[1] if len(v) > 1 else None
        rgx = bool(v[2]) if len(v) > 2 else False
        if isinstance(vals, str):
            vals = (vals,)
        out.append((ttype, tuple(vals) if vals is not None else None, rgx))
    return out


def collect_matchlits(ctx):
    """returns list of Lit"""
    repo, folder = ctx.repo, ctx.folder
    out = []
    # class constants M_*
    for c in repo.classes.values():
        for name, node in c.attrs.items():
            if name.startswith('M_'):
                try:
                    v = folder.eval(node, c.mod, None, c)
                except NotConst as e:
                    ctx.need(False, f'{c.mod.relpath}:{node.lineno}: {c.name}.{name} is not statically evaluable ({e})')
                for ttype, vals, rgx in _as_patterns(v):
                    out.append(Lit(c, node, f'{c.name}.{name}', ttype, vals, rgx, 'match', c.name))
    for f in repo.funcs.values():
        if f.mod.name in ('sqlparse.keywords', 'sqlparse.cli'):
            continue
        cls = f.cls
        g = f
        while cls is None and g is not None:
            cls = g.cls
            g = g.parent
        env = _local_const_env(ctx, f, cls)
        for n in own_nodes(f.node, include_lambdas=True):
            if isinstance(n, ast.Call):
                # m= keyword
                for k in n.keywords:
                    if k.arg == 'm':
                        try:
                            v = folder.eval(k.value, f.mod, env, cls)
                        except NotConst:
                            v = None
                        if v is None:
                            # reference to a class constant (sql.Over.M_OPEN) is covered by the class scan
                            continue
                        if isinstance(k.value, ast.Attribute) and k.value.attr.startswith('M_'):
                            continue
                        for ttype, vals, rgx in _as_patterns(v):
                            out.append(Lit(f, n, 'm=', ttype, vals, rgx, 'match', f.short))
                # X.match(ttype, values[, regex])
                if isinstance(n.func, ast.Attribute) and n.func.attr == 'match' and n.args and not any(isinstance(a, ast.Starred) for a in n.args):
                    try:
                        ttype = folder.eval(n.args[0], f.mod, env, cls)
                    except NotConst:
                        continue
                    if not isinstance(ttype, TT):
                        continue
                    vals = None
                    if len(n.args) > 1:
                        try:
                            vals = folder.eval(n.args[1], f.mod, env, cls)
                        except NotConst:
                            vals = '?'
                    rgx = False
                    if len(n.args) > 2:
                        rgx = isinstance(n.args[2], ast.Constant) and bool(n.args[2].value)
                    for k in n.keywords:
                        if k.arg == 'regex':
                            rgx = isinstance(k.value, ast.Constant) and bool(k.value.value)
                    if isinstance(vals, str):
                        vals = (vals,)
                    if vals == '?':
                        continue
                    out.append(Lit(f, n, '.match', ttype, tuple(vals) if vals is not None else None, rgx, 'match', f.short))
            elif isinstance(n, ast.Compare) and len(n.ops) == 1 and isinstance(n.ops[0], (ast.Eq, ast.NotEq, ast.In, ast.NotIn)):
                left, right = n.left, n.comparators[0]
                try:
                    cv = folder.eval(right, f.mod, env, cls)
                except NotConst:
                    continue
                vals = None
                if isinstance(cv, str):
                    vals = (cv,)
                elif isinstance(cv, (tuple, list)) and cv and all(isinstance(x, str) for x in cv):
                    vals = tuple(cv)
                if vals is None:
                    continue
                side = token_text_side(left, f)
                if side is None:
                    continue
                out.append(Lit(f, n, 'compare', None, vals, False, side, f.short))
            elif isinstance(n, ast.Call) and False:
                pass
        # startswith on token text
        for n in own_nodes(f.node):
            if isinstance(n, ast.Call) and isinstance(n.func, ast.Attribute) and n.func.attr in ('startswith', 'endswith') and n.args \
                    and isinstance(n.args[0], ast.Constant) and isinstance(n.args[0].value, str):
                side = token_text_side(n.func.value, f)
                if side is not None:
                    out.append(Lit(f, n, n.func.attr, None, (n.args[0].value,), False, side, f.short))
    return out


def _local_const_env(ctx, f, cls):
    env = {}
    chain = []
    g = f
    while g is not None:
        chain.append(g)
        g = g.parent
    for g in reversed(chain):
        if isinstance(g.node, ast.Lambda):
            continue
        for s in g.node.body:
            if isinstance(s, ast.Assign) and len(s.targets) == 1 and is_name(s.targets[0]):
                try:
                    env[s.targets[0].id] = ctx.folder.eval(s.value, g.mod, env, cls)
                except NotConst:
                    pass
    return env


def token_text_side(e, f):
    """descriptor {'expr':..., 'upper': bool, 'ws': bool} if `e` is (a normal form of) a token's text"""
    from .astutil import local_defs
    d = {'upper': False, 'ws': False, 'first_word': False}
    cur = e
    # X.split()[0]
    if isinstance(cur, ast.Subscript) and isinstance(cur.value, ast.Call) and isinstance(cur.value.func, ast.Attribute) \
            and cur.value.func.attr == 'split' and not cur.value.args and isinstance(cur.slice, ast.Constant) and cur.slice.value == 0:
        inner = token_text_side(cur.value.func.value, f)
        if inner is None:
            return None
        inner['first_word'] = True
        inner['ws'] = True
        return inner
    if isinstance(cur, ast.Call) and isinstance(cur.func, ast.Attribute) and cur.func.attr in ('upper', 'lower') and not cur.args:
        inner = token_text_side(cur.func.value, f)
        if inner is None:
            return None
        inner['upper'] = True
        return inner
    if isinstance(cur, ast.Call) and isinstance(cur.func, ast.Attribute) and cur.func.attr == 'join' and isinstance(cur.func.value, ast.Constant) \
            and cur.func.value.value == ' ' and len(cur.args) == 1 and isinstance(cur.args[0], ast.Call) \
            and isinstance(cur.args[0].func, ast.Attribute) and cur.args[0].func.attr == 'split' and not cur.args[0].args:
        inner = token_text_side(cur.args[0].func.value, f)
        if inner is None:
            return None
        inner['ws'] = True
        return inner
    if isinstance(cur, ast.Attribute) and cur.attr == 'normalized':
        return {'upper': 'normalized', 'ws': 'normalized', 'first_word': False, 'expr': src(e)}
    if isinstance(cur, ast.Attribute) and cur.attr == 'value':
        d['expr'] = src(e)
        return d
    if isinstance(cur, ast.Name):
        if cur.id == 'value' and f.mod.name.endswith('statement_splitter'):
            d['expr'] = 'value'
            return d
        if isinstance(f.node, ast.Lambda):
            return None
        defs = local_defs(f.node).get(cur.id, [])
        vals = [x for x in defs if isinstance(x, ast.AST)]
        if len(vals) == 1 and len(defs) == 1:
            inner = token_text_side(vals[0], f)
            if inner is not None:
                inner['via'] = cur.id
            return inner
    return None


# ---------------------------------------------------------------------------
# vocabulary shadowing (used by C09, C13, C17)

LETTER = re.compile(r'[A-Za-z]')


def consumer_families(ctx, lits):
    """family name -> {word: [Lit]}: tables of exact keyword spellings a consumer compares against"""
    fam = {}
    for l in lits:
        if l.values is None or l.regex:
            continue
        if l.where.endswith('_change_splitlevel') or l.where.endswith('StatementSplitter.process'):
            name = 'splitter'
        elif l.kind.startswith(('Where.', 'Having.')):
            name = l.kind.split('.')[0] + ' closers'
        elif '.M_' in l.kind:
            name = 'block matchers'
        else:
            continue
        for v in l.values:
            if LETTER.search(v):
                fam.setdefault(name, {}).setdefault(v.upper(), []).append(l)
    return fam


ACCEPTED_SHADOW = {
    ('block matchers', 'END WHILE'): 'there is no While group class; END WHILE must not close a Begin/Case, and as a separate token it does not',
    ('block matchers', 'HANDLER FOR'): 'DECLARE ... HANDLER FOR is not a FOR loop',
    ('splitter', 'HANDLER FOR'): 'DECLARE ... HANDLER FOR is not a FOR loop',
}


def check_shadowing(ctx, V, lits, rid, families=None):
    fam = consumer_families(ctx, lits)
    for name, words in sorted(fam.items()):
        if families is not None and name not in families:
            continue
        prefixes = [w for w, ls in words.items() if any(l.kind == 'startswith' for l in ls)]
        for w, ls in sorted(words.items()):
            ext = V.extensions(w)
            for e, tt in sorted(ext.items()):
                l = ls[0]
                key = f'{name}:{w}->{e}'
                known = e in words or any(e.startswith(p) for p in prefixes) or any(
                    isinstance(x.side, dict) and x.side.get('first_word') for x in ls)
                # fused tokens ending in another listed word of the family count as known if the family lists the fused form
                if known:
                    ctx.ob(rid, key, l.loc, f'{name}: fused token {e!r} is listed next to {w!r}', True)
                elif (name, e) in ACCEPTED_SHADOW:
                    ctx.ob(rid, key, l.loc, f'{name}: fused token {e!r} hides {w!r}', 'accepted', ACCEPTED_SHADOW[(name, e)])
                else:
                    r = V.dedicated_rule_for(e)
                    ctx.ob(rid, key, f'{V.T.kwmod.relpath}:{r.line if r else 0}',
                           f'{name}: every token the lexer can emit that starts with {w!r} is known to the consumer', False,
                           f'rule {r.pattern if r else "?"!r} emits {e!r} as one {tt!r} token; the table ({l.where}) only knows {w!r}: '
                           f'written as {e!r} the keyword is not seen by this consumer')


