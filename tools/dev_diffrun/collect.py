import re, ast, glob, json
S=set()
for f in glob.glob('/repo/tests/*.py'):
    try: tree=ast.parse(open(f).read())
    except Exception: continue
    for n in ast.walk(tree):
        if isinstance(n, ast.Constant) and isinstance(n.value, str) and 3 < len(n.value) < 400 and re.search(r'(?i)\b(select|insert|update|delete|create|with|case|begin|declare|from|where|join|values|drop|alter)\b', n.value):
            S.add(n.value)
for f in glob.glob('/repo/tests/files/*.sql'):
    try: S.add(open(f, encoding='utf-8').read()[:3000])
    except Exception: pass
extra=["select f(date '2020-01-01')","select (interval '1' day)","select (a::int)","select (::int)","select [a.]","select a[1], (b[2])","select case when a then (b as c) end","select (a := 1)","select x from (select a as b from t) y","select (a), [b], (c.d), (e.f as g)","select 1 /*a*/ /*+ h */ from t","with data as (select 1) select 1","select count(*), f(null), g(?) from t","select a from t where(x=1) and(y=2)","select '''abc' , 'ab''cd'","begin if a then select 1; end if; end;","create procedure p() begin select 1; select 2; end; select 3;","select a -- c\n from t","select (a -- c\n) from t","select a from t where x in (select (1))","select a from t where (a.b = c.d) and (e)"]
S|=set(extra)
json.dump(sorted(S), open('corpus.json','w'))
print(len(S))
