import sys, json
root=sys.argv[1]; sys.path.insert(0, root)
import sqlparse
def tree(t, d=0):
    if t.is_group: return type(t).__name__+'['+','.join(tree(k) for k in t.tokens)+']'
    return repr(t.value)
out={}
for s in json.load(open('/tmp/diffrun/corpus.json')):
    r={}
    try: r['tree']=[tree(st) for st in sqlparse.parse(s)]
    except Exception as e: r['tree']='EXC '+type(e).__name__
    try: r['split']=sqlparse.split(s)
    except Exception as e: r['split']='EXC '+type(e).__name__
    for name,opts in (('plain',{}),('sw',{'strip_whitespace':True}),('sc',{'strip_comments':True}),('re',{'reindent':True}),('ra',{'reindent_aligned':True}),('kw',{'keyword_case':'upper','identifier_case':'lower'}),('op',{'use_space_around_operators':True}),('tr',{'truncate_strings':3})):
        try: r[name]=sqlparse.format(s, **opts)
        except Exception as e: r[name]='EXC '+type(e).__name__+str(e)[:40]
    try: r['types']=[st.get_type() for st in sqlparse.parse(s)]
    except Exception as e: r['types']='EXC'
    out[s]=r
json.dump(out, open(sys.argv[2],'w'), indent=0)
