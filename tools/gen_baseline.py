#!/usr/bin/env python3
"""Regenerates sa/baseline_funcs.json from /repo HEAD's working tree: the functions, conditional-expression statements, named
guards and attribute aliases of the pinned tree, which sa/normalize.py leaves alone (so that the pass is the identity there).
Run after every fix: commit in /repo."""
import ast, os, json, sys
root = sys.argv[1] if len(sys.argv) > 1 else '/repo'
out = {}


def unit_items(t):
    for n in t.body:
        if isinstance(n, (ast.FunctionDef, ast.AsyncFunctionDef)):
            yield n.name, n
        elif isinstance(n, ast.ClassDef):
            for m in n.body:
                if isinstance(m, (ast.FunctionDef, ast.AsyncFunctionDef)):
                    yield f'{n.name}.{m.name}', m


def pure_chain(e):
    while isinstance(e, ast.Attribute):
        e = e.value
    return isinstance(e, ast.Name)


for dp, dn, fn in os.walk(os.path.join(root, 'sqlparse')):
    for f in fn:
        if not f.endswith('.py'):
            continue
        p = os.path.join(dp, f)
        rel = os.path.relpath(p, root)
        name = rel[:-3].replace(os.sep, '.')
        if name.endswith('.__init__'):
            name = name[:-9]
        t = ast.parse(open(p, encoding='utf-8').read())
        names = []
        for n in t.body:
            if isinstance(n, (ast.FunctionDef, ast.AsyncFunctionDef)):
                names.append(n.name)
            elif isinstance(n, ast.ClassDef):
                names.append(n.name)
                for m in n.body:
                    if isinstance(m, (ast.FunctionDef, ast.AsyncFunctionDef)):
                        names.append(f'{n.name}.{m.name}')
        ifexp, guards, aliases = {}, {}, {}
        for q, fnode in unit_items(t):
            for s in ast.walk(fnode):
                if isinstance(s, (ast.Return, ast.Assign)) and isinstance(getattr(s, 'value', None), ast.IfExp):
                    ifexp.setdefault(q, []).append(ast.unparse(s))
                if isinstance(s, ast.Assign) and len(s.targets) == 1 and isinstance(s.targets[0], ast.Name):
                    if isinstance(s.value, (ast.Compare, ast.BoolOp)) or (isinstance(s.value, ast.UnaryOp) and isinstance(s.value.op, ast.Not)):
                        guards.setdefault(q, []).append(s.targets[0].id)
                    if isinstance(s.value, ast.Attribute) and pure_chain(s.value):
                        aliases.setdefault(q, []).append(s.targets[0].id)
        out[name] = {'funcs': sorted(names), 'ifexp': ifexp, 'guards': guards, 'aliases': aliases}
dst = os.path.join(os.path.dirname(os.path.dirname(os.path.abspath(__file__))), 'sa', 'baseline_funcs.json')
json.dump(out, open(dst, 'w'), indent=0, sort_keys=True)
print(sum(len(v['funcs']) for v in out.values()), 'functions/classes in', len(out), 'modules')
