#!/usr/bin/env python3
"""Regenerates /verif/MANIFEST.json from the per-property metadata below."""
import json
import os

V = os.path.dirname(os.path.dirname(os.path.abspath(__file__)))
BASE = json.load(open('/root/.vp/BASELINE.json')) if os.path.exists('/root/.vp/BASELINE.json') else {}

P = {
 'C01': ('proof', 'regex-table width analysis + path rules on the scan loop',
         'All obligations of the tiling argument are discharged on the source: every SQL_REGEX row has minimum width >= 1, every action is one of the two kinds the loop yields for, the loop yields the whole match once, skips m.end()-pos-1 and falls back to a one-character Error token, is_keyword/consume/set_SQL_REGEX have the shapes the argument needs, and the str input is not rewritten. Proof level because the obligations are sufficient for the statement for str input under A1.',
         'Trusted: CPython ast/re._parser (getwidth), stdlib semantics (A1). bytes/stream forms are C19.', '3 C01'),
 'C02': ('other', 'effect analysis over the call graph + path rules + symbolic slice comparison',
         'Decides the four obligations that are jointly sufficient for the round trip under A0-A2 (splitter conservation, str = leaf concatenation, grouping edits only via group_tokens with balanced slices, parse installs no filter). The parser is never run; a behavioural round-trip is not evaluated.',
         'Sufficient conditions under A0-A2 and C01; name-based call graph (CHA).', '3 C02'),
 'C03': ('other', 'effect/ownership analysis, pairing rules, offset arithmetic on paths',
         'Decides leaf preservation, the single allowed re-typing, parent pairing, value refresh, index bookkeeping of the generic drivers, ordered-bounds provenance and read-only-ness of accessors (transitively over the call graph).',
         'Not decided: run-time index ranges on every input; arithmetic agreement of token_index/get_token_at_offset (values).', '3 C03'),
 'C04': ('other', 'sibling agreement of entry points + pipeline order + conservation path rules',
         'Decides that split and parse drive the same single splitter pass, that pieces are non-empty and that strip() agrees with the lexer\'s whitespace class. ',
         'Not decided: re-split idempotence (needs re-lexing of output).', '3 C04'),
 'C05': ('other', 'guard-dominance rules on the splitter + region-rule automata + AST interpretation of StatementSplitter.process on token streams',
         'Decides the mechanism clauses: split trigger shape, value independence of non-structural tokens, positive level only under CREATE/parenthesis, region rules typed outside Punctuation/Keyword; plain scripts (lexed with the table model) through the interpreted splitter come back as the written statements.',
         'Bounded: eight plain scripts and the parenthesis skeletons for the interpretation. Not decided: the statement count k for arbitrary scripts.', '3 C05'),
 'C06': ('other', 'guarded-effect discipline on every mutation site of the layout filters; tree-API contract; statement-edge and operator-spacing table rules',
         'Every tree effect of a layout filter inserts whitespace, deletes a token proved whitespace by a dominating guard, or blanks a whitespace value; insert_before/insert_after insert exactly the given token; layout options enable only layout filters in a fixed order; serializer/lexer region tables compared; removing a statement edge or spacing an operator cannot change how the text lexes (table evaluation).',
         'Not decided: statement-count equality of arbitrary output; the open findings (serializer regions, GO boundary, "# ") are listed in known_findings.json.', '3 C06'),
 'C07': ('other', 'error discipline: raise inventory, option validation dataflow, nullness and bounds analysis',
         'Decides a discipline over all code reachable from the entry points: only SQLParseError raised, every option validated before use with total tests, possibly-None values tested before dereference, constant subscripts covered by guards or named invariants.',
         'Not decided: totality itself (run-time index values, memory).', '3 C07'),
 'C08': ('other', 'stream-conservation path rules; AST interpretation of the case filters on every token type, of StripCommentsFilter.process on 1175 small token trees and of TruncateStringFilter.process on 11718 literals read back with the lexer rule',
         'Which tokens each targeted filter touches and what it leaves: decided by evaluating the filter source (with every TokenList helper it calls) in the checker on enumerated small inputs and checking the post-condition of the property on each (comments gone, hints and other tokens kept in order, no fusion, second run changes nothing; truncated literal is again one literal).',
         'Bounded: trees of up to 4 children per list plus the group shapes grouping builds; literals over 5 units up to length 5. Case mappings that change length are not examined.', '3 C08'),
 'C09': ('other', 'stack-discipline rules on _group_matching + table agreement + AST interpretation of _group/group_tokens on 144 small bracketed groups with synthetic passes',
         'The matcher shape, producibility of open/close tokens with exact types, pass order; that the joining driver never takes a delimiter of the list it runs on into a new group and still groups when a delimiter is only looked at is decided by evaluating the driver source on enumerated groups.',
         'Not decided: equality with a reference matcher on arbitrary input.', '3 C09'),
 'C10': ('other', 'filter order and option implication; clause-keyword table vs lexer output; AST interpretation of StripWhitespaceFilter.process on 282 small token trees, of strip_whitespace + ReindentFilter.process on 26 statement trees and of _stripws_default on 62 patterns; handler/table agreement; fresh-object rule',
         'strip_whitespace normal form decided on enumerated small trees by evaluating the filter source (no edge whitespace, no run of two, parentheses tight); reindent: every clause keyword in every spelling the lexer emits is selected by the split lookup, each group handler recognises every delimiter word of its class; operator spacing two-sided.',
         'Bounded: 26 statement trees for reindent, trees of up to 4 children per list for strip_whitespace. Not decided: reindent_aligned layout; the fixed-point clause.', '3 C10'),
 'C11': ('other', 'normal-form agreement between matcher literals and lexer output (case, inner whitespace), vocabulary shadowing; AST interpretation of the splitter and of the identifier accessors under five kinds of whitespace',
         'Every comparison of keyword text against a constant goes through a normal form erasing case and inner whitespace; multi-word rules use \\s+; neighbour lookups skip whitespace by containment, type tests by containment (no equality / membership in a display); all ordered token pairs lex alike with five separators; statement boundaries of interpreted token streams and accessor results on interpreted Identifier trees do not depend on the kind of whitespace.',
         'Not decided: equality of whole tree shapes under respelling for arbitrary statements.', '3 C11'),
 'C12': ('other', 'AST interpretation of the five accessors on enumerated Identifier trees; table agreement of name types; pass-order rule over the _group clients; lexer scan semantics',
         'get_real_name/get_parent_name/get_alias/get_name/has_alias interpreted on Identifier trees (name, qualifier.name, three quoting styles, alias with/without AS, blanks and comments between the parts) return the written parts; name-type sets of lexer and accessors agree; a name after a period is lexed as a name; no Identifier-building pass that runs before group_identifier/group_as takes a Parenthesis as operand.',
         'Bounded: trees of the property\'s reference forms, not arbitrary expressions; the placement of the reference in a statement is covered only through the pass-order and follower rules.', '3 C12'),
 'C13': ('other', 'AST interpretation of group_where, get_cases, get_identifiers, get_parameters and the joining driver on enumerated token lists; closing-keyword tables vs lexer vocabulary; region rules of the lexer',
         'Where extent on token lists with every closing keyword / in a parenthesis / at the end; one (condition, value) pair per WHEN arm and (None, value) for ELSE on 216 Case trees; list items and sole arguments of every token kind; a typed literal directly behind "(" is grouped; literals, quoted names and comments are single tokens whatever they contain.',
         'Bounded: lists of up to a handful of tokens per shape. Not decided: Comparison.left/right on arbitrary operands beyond the kind tables.', '3 C13'),
 'C14': ('other', 'leftmost-first extent automata x specification DFA; dictionary/rule table agreement; abstract interpretation of Lexer.get_tokens on short texts and on words whose upper-casing and caseless folding disagree (R14.S, R14.10)',
         'For every region kind and every body over the full alphabet the first matching rule is of the expected family and ends exactly at the terminator; dictionaries consulted in registration order case-insensitively; every dictionary word reachable as one token.',
         'Contexts limited to the delimiter classes listed; character classes sampled over BMP + astral representatives.', '3 C14'),
 'C15': ('other', 'call-graph recursion containment under the single translating try; who-may-call rule on interpreter limits; non-recursive serialisation; translating guards on recursive accessors; state-leak inventory',
         "RecursionError cannot escape the entry points: every recursive routine they can reach runs inside FilterStack.run's try whose handler raises SQLParseError; str()/flatten() of a returned statement do not recurse; every multi-function recursive accessor cycle passes through a call that translates RecursionError; a failed call writes no process-wide state (closure cells, class/module variables, lexer publication order).",
         'Not decided: C-level stack exhaustion, MemoryError, behaviour at specific limits.', '3 C15'),
 'C16': ('proof', 'EDA (exponential ambiguity) test on the NFA self-product of every lexer regex',
         'No rule of SQL_REGEX and no look-around sub-pattern is exponentially ambiguous or has an epsilon cycle; each obligation is one product-automaton emptiness check, all discharged; historical ReDoS regexes are positive controls.',
         'Trusted: re._parser, bitset character classes. The timing budget sentence is not decided.', '3 C16'),
 'C17': ('other', 'transfer-table extraction by path enumeration + protocol evaluation on keyword skeletons + ordering rule on the driver loop',
         'The split-level protocol extracted from _change_splitlevel is balanced for each construct of the statement; closers the lexer emits agree with closers the table handles.',
         'Nesting checked to bounded depth; keywords used as identifiers not modelled.', '3 C17'),
 'C18': ('other', 'matcher rules for the leading token; AST interpretation of Statement.get_type on 231 statement heads; keyword shadowing and dictionary-order table agreement',
         'get_type decided on enumerated statement heads by evaluating its source: leading whitespace/comment prefixes x DML/DDL/other first tokens, WITH x eight shapes of CTE definitions x DML or none; DML/DDL words reach get_type with that type in every right context.',
         'Open findings: keyword directly before "(" or "." is lexed as a name.', '3 C18'),
 'C19': ('other', 'who-may-decode ownership + parameter forwarding dataflow + CLI wiring + finite-domain interpretation of the option functions',
         'One decode point, encoding forwarded unchanged from every entry point, codecs as documented, CLI options validated and forwarded; for every flag combination the command line and format() build the same filter stack.',
         'Not decided: value equality of outputs; codec behaviour.', '3 C19'),
 'C20': ('other', 'lock-discipline, read-only request path, reset completeness, global-write and closure-cell inventory',
         'Inventory of process-wide state and proof that the request path does not write it.',
         'Not decided: interleavings inside CPython; user code reconfiguring the lexer concurrently.', '3 C20'),
}

checks, na = [], []
for pid, (lvl, tech, text, note, ref) in sorted(P.items()):
    if os.path.exists(os.path.join(V, 'sa', 'props', pid.lower() + '.py')):
        checks.append({
            'property_id': pid,
            'quick_cmd': f'./check {pid} --tier quick',
            'thorough_cmd': f'./check {pid} --tier thorough',
            'evidence_file': f'/verif/evidence/{pid}.json',
            'replay_cmd_template': f'./check {pid} --replay {{path}}',
            'engine': 'sa',
            'level_claimed': {'category': lvl, 'text': text, 'design_ref': f'DESIGN.md section {ref}'},
            'level_note': note,
            'technique': 'static analysis: ' + tech,
        })
    else:
        na.append({'property_id': pid, 'reason': 'check not built yet (work in progress; see DESIGN.md section 3 for the planned rules)'})

m = {
 'version': 1,
 'setup_cmd': 'if [ -x /venv/bin/python ]; then /venv/bin/python -m compileall -q sa; else python3 -m compileall -q sa; fi',
 'hooks': {'guard': 'SQLPARSE_VERIF', 'enable': 'no hooks are needed: the checks only read the source text of /repo',
           'baseline_off_cmd': 'cd /repo && /venv/bin/python -m pytest -ra -q -p no:cacheprovider --timeout=900 --continue-on-collection-errors',
           'source_commits': [], 'add_only': True},
 'engines': [
  {'name': 'model/fold/tables', 'path': 'sa/model.py sa/fold.py sa/tables.py', 'serves_properties': sorted(P), 'kind_free_text': 'AST loader, constant folder, lexer/keyword tables recovered from source'},
  {'name': 'rx', 'path': 'sa/rx.py', 'serves_properties': ['C01', 'C05', 'C14', 'C16'], 'kind_free_text': 'regex automata: width, first sets, EDA self-product, leftmost-first extent automaton, DFA kit'},
  {'name': 'cg/fx', 'path': 'sa/cg.py sa/fx.py', 'serves_properties': ['C02', 'C03', 'C06', 'C07', 'C08', 'C15', 'C20'], 'kind_free_text': 'name-based call graph with repo idioms X1-X3; effect extraction'},
  {'name': 'normalize', 'path': 'sa/normalize.py sa/baseline_funcs.json', 'serves_properties': sorted(P), 'kind_free_text': 'semantics-preserving normal form: new private helpers expanded at their call sites, new conditional expressions split, named guards substituted (identity on the pinned tree)'},
  {'name': 'miniev/optmodel', 'path': 'sa/miniev.py sa/optmodel.py sa/kinds.py', 'serves_properties': ['C03', 'C05', 'C06', 'C07', 'C08', 'C09', 'C10', 'C11', 'C12', 'C13', 'C17', 'C18', 'C19'], 'kind_free_text': 'interpreter for small pure functions of the analysed source on finite enumerated domains (token kinds, option dictionaries, keyword skeletons)'},
  {'name': 'paths', 'path': 'sa/astutil.py', 'serves_properties': sorted(P), 'kind_free_text': 'structured path enumeration, dominating guard facts, linear forms, copy propagation'},
 ],
 'checks': checks,
 'not_applicable': na,
 'notes': 'All checks are static: nothing under /verif imports or runs sqlparse. Exit 0 held / 1 VIOLATION / 2 ANALYSIS-ERROR (anchor vanished, never a silent pass). Known findings: /verif/known_findings.json.',
}
json.dump(m, open(os.path.join(V, 'MANIFEST.json'), 'w'), indent=1)
print(len(checks), 'checks,', len(na), 'not applicable')
