#!/bin/sh
# tools/refresh_seeds.sh -- re-base every stored seeded patch onto /repo HEAD (after a fix: commit moved the context)
cd /verif
for s in $(ls seeded); do
  W=/tmp/seedrefresh.$$
  git -C /repo worktree add -q --detach $W HEAD || exit 2
  if git -C $W apply /verif/seeded/$s/patch.diff 2>/dev/null; then :; 
  elif (cd $W && patch -s -p1 -F3 < /verif/seeded/$s/patch.diff >/dev/null 2>&1); then
     find $W -name '*.orig' -delete; git -C $W diff -- sqlparse > /verif/seeded/$s/patch.diff; echo "$s: rebased"
  else echo "$s: CANNOT REBASE"; fi
  git -C /repo worktree remove --force $W
done
