#!/bin/sh
# tools/run_benign.sh [name ...] -- every stored behaviour-preserving change (benign/<name>/<n>.diff) must leave all checks silent:
# any VIOLATION is a false alarm, any ANALYSIS-ERROR a checker that cannot read the refactored code.
cd /verif
NAMES="$@"; [ -n "$NAMES" ] || NAMES=$(ls benign)
for b in $NAMES; do for d in benign/$b/*.diff; do echo "$d /verif/$d"; done; done | xargs -P ${JOBS:-8} -L 1 tools/run_patch.sh | sort
