#!/bin/sh
# tools/run_benign.sh [name ...] -- every stored behaviour-preserving change (benign/<name>/<n>.diff) must leave all checks silent
cd /verif
NAMES="$@"; [ -n "$NAMES" ] || NAMES=$(ls benign)
for b in $NAMES; do
  for d in benign/$b/*.diff; do
    W=/tmp/benignrun.$$
    git -C /repo worktree add -q --detach $W HEAD || exit 2
    if ! git -C $W apply /verif/$d 2>/dev/null; then
      if ! (cd $W && patch -s -p1 -F3 < /verif/$d >/dev/null 2>&1); then echo "$d: does not apply"; git -C /repo worktree remove --force $W; continue; fi
    fi
    fired=""; err=""
    for p in sa/props/c[0-9][0-9].py; do
      id=$(basename $p .py | tr c C)
      ./check $id --root $W --no-evidence >/tmp/benignrun.out.$$ 2>&1; rc=$?
      if [ $rc = 1 ]; then fired="$fired $id"; [ -n "${VERBOSE:-}" ] && grep -v '^WARNING\|KNOWN' /tmp/benignrun.out.$$ | head -${VERBOSE} | cut -c1-400; fi
      if [ $rc = 2 ]; then err="$err $id"; [ -n "${VERBOSE:-}" ] && grep -v '^WARNING' /tmp/benignrun.out.$$ | head -3 | cut -c1-400; fi
    done
    echo "$d: FALSE-ALARM from:[$fired ] ANALYSIS-ERROR from:[$err ]"
    git -C /repo worktree remove --force $W
  done
done
rm -f /tmp/benignrun.out.$$
