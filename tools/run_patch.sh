#!/bin/sh
# tools/run_patch.sh <label> <patch file>  -- apply one patch to a scratch worktree of /repo, run all twenty checks against it
# (--root, no evidence written), print which fire / fail, remove the worktree. Used by run_seeds.sh / run_benign.sh.
cd /verif
label="$1"; patch="$2"
W=$(mktemp -d /tmp/patchrun.XXXXXX); rmdir $W
git -C /repo worktree add -q --detach $W HEAD || exit 2
if ! git -C $W apply "$patch" 2>/dev/null; then
  if ! (cd $W && patch -s -p1 -F3 < "$patch" >/dev/null 2>&1); then echo "$label: does not apply"; git -C /repo worktree remove --force $W; exit 0; fi
fi
fired=""; err=""; detail=""
for p in sa/props/c[0-9][0-9].py; do
  id=$(basename $p .py | tr c C)
  out=$(./check $id --root $W --no-evidence 2>&1); rc=$?
  [ $rc = 1 ] && fired="$fired $id"
  [ $rc = 2 ] && err="$err $id"
  if [ $rc != 0 ] && [ -n "${VERBOSE:-}" ]; then detail="$detail
$(echo "$out" | grep -v '^WARNING\|KNOWN' | head -${VERBOSE} | cut -c1-500)"; fi
done
echo "$label: VIOLATION from:[$fired ] ANALYSIS-ERROR from:[$err ]$detail"
git -C /repo worktree remove --force $W
