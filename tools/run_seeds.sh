#!/bin/sh
# tools/run_seeds.sh [seed-id ...]  -- run every implemented check against each stored seeded change
# (applied to a scratch worktree outside /repo and /verif, removed afterwards). Prints which checks fire.
cd /verif
SEEDS="$@"; [ -n "$SEEDS" ] || SEEDS=$(ls seeded)
for s in $SEEDS; do
  W=/tmp/seedrun.$$
  git -C /repo worktree add -q --detach $W HEAD || exit 2
  if ! git -C $W apply /verif/seeded/$s/patch.diff 2>/dev/null; then echo "$s: patch does not apply"; git -C /repo worktree remove --force $W; continue; fi
  fired=""; err=""
  for p in sa/props/c[0-9][0-9].py; do
    id=$(basename $p .py | tr c C)
    ./check $id --root $W --no-evidence >/tmp/seedrun.out.$$ 2>&1; rc=$?
    [ $rc = 1 ] && fired="$fired $id"
    [ $rc = 2 ] && err="$err $id"
    if [ $rc != 0 ] && [ -n "${VERBOSE:-}" ]; then grep -v '^WARNING' /tmp/seedrun.out.$$ | head -${VERBOSE}; fi
  done
  echo "$s: VIOLATION from:[$fired ] ANALYSIS-ERROR from:[$err ]"
  git -C /repo worktree remove --force $W
done
rm -f /tmp/seedrun.out.$$
