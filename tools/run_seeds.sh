#!/bin/sh
# tools/run_seeds.sh [seed-id ...]  -- run every check against each stored seeded change (parallel, scratch worktrees under /tmp,
# removed afterwards). A seed must be caught (VIOLATION) by the check of the property it was written against.
cd /verif
SEEDS="$@"; [ -n "$SEEDS" ] || SEEDS=$(ls seeded)
for s in $SEEDS; do echo "$s /verif/seeded/$s/patch.diff"; done | xargs -P ${JOBS:-8} -L 1 tools/run_patch.sh | sort
