#!/usr/bin/env python3
"""tools/run_variants.py [PID ...] -- run the variant catalogue and print one line per variant"""
import sys, os
sys.path.insert(0, os.path.dirname(os.path.dirname(os.path.abspath(__file__))))
from sa import variants
pids = sys.argv[1:] or sorted({v['prop'] for v in variants.VARIANTS})
tot = {}
for p in pids:
    r = variants.run_for(p, '/repo')
    for x in r['results']:
        tot[x['outcome']] = tot.get(x['outcome'], 0) + 1
        extra = x.get('example') or x.get('why') or x.get('expected') or ''
        print(f"{p} {x['id']:34s} {x['outcome']:18s} {','.join(x.get('rules', []))} {str(extra)[:150]}")
print(tot)
