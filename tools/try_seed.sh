#!/bin/sh
# tools/try_seed.sh <seed-id> <PROP> [grep pattern]  -- run one check against one stored seed in a scratch worktree, show the non-discharged lines
cd /verif
W=$(mktemp -d /tmp/tryseed.XXXXXX); rmdir $W
git -C /repo worktree add -q --detach $W HEAD || exit 2
git -C $W apply /verif/seeded/$1/patch.diff || { git -C /repo worktree remove --force $W; exit 2; }
./check $2 --root $W --no-evidence 2>&1 | grep -v '^WARNING\|KNOWN-FINDING' | grep -- "${3:-REFUTED\|UNDETERMINED\|VIOLATION\|ANALYSIS\|NOTE\|tier=}" | cut -c1-${CUT:-420}
git -C /repo worktree remove --force $W
