#!/bin/sh
# tools/verify_seed.sh <worktree> <seed-id>
# Confirms an independently produced breaking change: suite passes with it,
# demo fails with it and passes without it; then stores it under seeded/<seed-id>/.
set -u
W="$1"; ID="$2"
V=/verif/seeded/$ID
cd "$W" || exit 2
export SEED_ROOT="$W"
git diff -- sqlparse > /tmp/_seed_patch.$$ 
[ -s /tmp/_seed_patch.$$ ] || { echo "no diff in $W"; exit 2; }
SUITE=$(/venv/bin/python -m pytest -q -p no:cacheprovider 2>&1 | tail -1)
/venv/bin/python _seed/demo.py >/tmp/_seed_with.$$ 2>&1; RC_WITH=$?
git apply -R /tmp/_seed_patch.$$ || { echo 'cannot revert patch'; exit 2; }
/venv/bin/python _seed/demo.py >/tmp/_seed_without.$$ 2>&1; RC_WITHOUT=$?
git apply /tmp/_seed_patch.$$ || { echo 'cannot re-apply patch'; exit 2; }
echo "suite: $SUITE | demo with change: exit $RC_WITH | demo without: exit $RC_WITHOUT"
case "$SUITE" in *" failed"*|*error*) echo "REJECT: suite does not pass"; exit 1;; esac
[ "$RC_WITH" = 1 ] && [ "$RC_WITHOUT" = 0 ] || { echo "REJECT: demo does not discriminate"; exit 1; }
mkdir -p "$V"
cp /tmp/_seed_patch.$$ "$V/patch.diff"; cp _seed/demo.py "$V/demo.py"
/venv/bin/python - "$W/_seed/meta.json" "$V/meta.json" "$SUITE" "$RC_WITH" "$RC_WITHOUT" <<'PY'
import json,sys
src,dst,suite,a,b=sys.argv[1:]
try: m=json.load(open(src))
except Exception: m={}
m['confirmed_by_me']={'suite_with_change':suite,'demo_exit_with_change':int(a),'demo_exit_without_change':int(b),
 'how':'tools/verify_seed.sh in the scratch worktree: pytest with the change, demo with the change, git apply -R, demo without, git apply'}
json.dump(m,open(dst,'w'),indent=1)
PY
rm -f /tmp/_seed_*.$$
echo "stored $V"
